//! C16 — types declared to encode alike really do.
//!
//! The pair table is written by hand against the `impl .. EncodeLike` lines of the crate; each
//! entry is a call whose trait bound `A: EncodeLike<B>` is checked by the compiler, so an entry
//! can never name a pair the crate does not declare.

use crate::common::*;
use parity_scale_codec::{Compact, CompactRef, Decode, Encode, EncodeLike, OptionBool, Ref};
use refmodel::{domain, ref_enc, Value};
use serde_json::{json, Value as Json};
use std::{
	borrow::Cow,
	collections::{BTreeMap, BTreeSet, BinaryHeap, LinkedList, VecDeque},
	rc::Rc,
	sync::Arc,
};
use subjects::{derived::CA, vt::VT, Subject};

/// Number of `impl .. EncodeLike` lines this table was written against (completeness tripwire).
pub const IMPL_LINES_AT_PINNED_COMMIT: usize = 63;

fn check_pair<A, B>(family: &str, a: &A, bv: &Value, bytes: bool) -> Result<(), String>
where
	A: EncodeLike<B> + Encode,
	B: Encode + Decode + Subject,
{
	let shape = B::shape();
	let want = ref_enc(&shape, bv).map_err(|e| format!("{:?}", e))?;
	let got = guarded(|| a.encode()).map_err(|p| format!("{}: encode panicked: {}", family, p))?;
	if bytes && !shape.order_free() && got != want {
		return Err(format!("{}: the alias encodes to {} but the value it stands for encodes to {}", family, hex(&got), hex(&want)));
	}
	let mut s = &got[..];
	match guarded(|| B::decode(&mut s)).map_err(|p| format!("{}: decode panicked: {}", family, p))? {
		Err(e) => Err(format!("{}: bytes {} of the alias do not decode as the target type: {}", family, hex(&got), e)),
		Ok(b) => {
			if !s.is_empty() {
				return Err(format!("{}: decoding the alias' bytes as the target leaves {} bytes", family, s.len()));
			}
			if shape.normalize(&b.to_value()) != shape.normalize(bv) {
				return Err(format!(
					"{}: bytes of the alias decode to {} instead of {}",
					family,
					value_short(&b.to_value()),
					value_short(bv)
				));
			}
			Ok(())
		},
	}
}

struct Ctx<'a> {
	acc: &'a mut Acc,
	only: Option<&'a str>,
}

impl Ctx<'_> {
	/// One family: for every value of B's boundary domain build the alias A and compare.
	fn fam<A, B>(&mut self, family: &'static str, make: impl Fn(&B) -> A)
	where
		A: EncodeLike<B> + Encode,
		B: Encode + Decode + Subject,
	{
		self.fam_opt(family, make, true)
	}

	/// For a slice given in an order other than the container's own there is no byte string "of the
	/// value it stands for"; only the decode clause of the property applies.
	fn fam_decode_only<A, B>(&mut self, family: &'static str, make: impl Fn(&B) -> A)
	where
		A: EncodeLike<B> + Encode,
		B: Encode + Decode + Subject,
	{
		self.fam_opt(family, make, false)
	}

	fn fam_opt<A, B>(&mut self, family: &'static str, make: impl Fn(&B) -> A, bytes: bool)
	where
		A: EncodeLike<B> + Encode,
		B: Encode + Decode + Subject,
	{
		if let Some(o) = self.only {
			if o != family {
				return;
			}
		}
		let shape = B::shape();
		let mut n = 0;
		// sequences of compound elements also at 16 383..16 385 elements (several preallocation chunks of
		// the item-by-item decoder): an alias must decode as its target at every length
		let mut bound = domain::Bound::small();
		bound.big_fills = family.contains("(u8, bool)") || family.contains("String");
		for v in domain::values(&shape, &bound) {
			if ref_enc(&shape, &v).is_err() {
				continue;
			}
			let b = B::from_value(&v);
			let a = make(&b);
			self.acc.evaluations += 1;
			self.acc.transitions += 2;
			match check_pair::<A, B>(family, &a, &v, bytes) {
				Ok(()) => {
					self.acc.states += 1;
					self.acc.traces += 1;
					self.acc.nontrivial += 1;
					n += 1;
				},
				Err(detail) => self.acc.violate(Violation {
					property: "C16".into(),
					sub: "C16.pair".into(),
					key: format!("C16|{}", family),
					detail,
					case: json!({"sub": "C16.pair", "family": family}),
				}),
			}
		}
		self.acc.outcome(family);
		let _ = n;
	}
}

impl Ctx<'_> {
	/// Like `fam` for targets `B` that cannot be decoded (`&[T]`, `&str`): the pair `A: EncodeLike<B>`
	/// is still checked by the compiler; bytes are compared with (and decoded as) the owned type `D`
	/// that `B` stands for on the wire.
	fn fam_as<A, B, D>(&mut self, family: &'static str, make: impl Fn(&D) -> A)
	where
		A: EncodeLike<B> + Encode,
		B: Encode,
		D: Encode + Decode + Subject,
	{
		struct Via<A, D>(A, std::marker::PhantomData<D>);
		impl<A: Encode, D> Encode for Via<A, D> {
			fn encode_to<W: parity_scale_codec::Output + ?Sized>(&self, dest: &mut W) {
				self.0.encode_to(dest)
			}
			fn encode(&self) -> Vec<u8> {
				self.0.encode()
			}
		}
		impl<A: Encode, D: Encode> EncodeLike<D> for Via<A, D> {}
		self.fam::<Via<A, D>, D>(family, |d| Via(make(d), Default::default()));
	}
}

macro_rules! holders_for {
	($c:ident, $t:ty, $tn:literal) => {{
		$c.fam::<Box<$t>, $t>(concat!("Box<", $tn, "> ~ ", $tn), |b| Box::new(b.clone()));
		$c.fam::<$t, Box<$t>>(concat!($tn, " ~ Box<", $tn, ">"), |b| (**b).clone());
		$c.fam::<Rc<$t>, $t>(concat!("Rc<", $tn, "> ~ ", $tn), |b| Rc::new(b.clone()));
		$c.fam::<$t, Rc<$t>>(concat!($tn, " ~ Rc<", $tn, ">"), |b| (**b).clone());
		$c.fam::<Arc<$t>, $t>(concat!("Arc<", $tn, "> ~ ", $tn), |b| Arc::new(b.clone()));
		$c.fam::<$t, Arc<$t>>(concat!($tn, " ~ Arc<", $tn, ">"), |b| (**b).clone());
		$c.fam::<Cow<'static, $t>, $t>(concat!("Cow<", $tn, "> ~ ", $tn), |b| Cow::Owned(b.clone()));
		$c.fam::<$t, Cow<'static, $t>>(concat!($tn, " ~ Cow<", $tn, ">"), |b| (**b).clone());
		$c.fam::<$t, $t>(concat!($tn, " ~ itself"), |b| b.clone());
		$c.fam::<Box<$t>, Box<$t>>(concat!("Box<", $tn, "> ~ itself"), |b| b.clone());
		// references: the alias borrows from a leaked clone (the table is tiny)
		$c.fam::<&'static $t, $t>(concat!("&", $tn, " ~ ", $tn), |b| &*Box::leak(Box::new(b.clone())));
		$c.fam::<&'static &'static $t, $t>(concat!("&&", $tn, " ~ ", $tn), |b| {
			let r: &'static $t = Box::leak(Box::new(b.clone()));
			&*Box::leak(Box::new(r))
		});
		$c.fam::<&'static mut $t, $t>(concat!("&mut ", $tn, " ~ ", $tn), |b| Box::leak(Box::new(b.clone())));
		$c.fam::<Ref<'static, $t, $t>, $t>(concat!("Ref<", $tn, "> ~ ", $tn), |b| Ref::from(&*Box::leak(Box::new(b.clone()))));
		$c.fam::<&'static Ref<'static, $t, $t>, $t>(concat!("&Ref<", $tn, "> ~ ", $tn), |b| {
			let r: Ref<'static, $t, $t> = Ref::from(&*Box::leak(Box::new(b.clone())));
			&*Box::leak(Box::new(r))
		});
		// element-wise aliases
		$c.fam::<Option<Box<$t>>, Option<$t>>(concat!("Option<Box<", $tn, ">> ~ Option<", $tn, ">"), |b| b.clone().map(Box::new));
		$c.fam::<Result<Box<$t>, Rc<$t>>, Result<$t, $t>>(concat!("Result<Box, Rc> ~ Result<", $tn, ", ", $tn, ">"), |b| match b {
			Ok(x) => Ok(Box::new(x.clone())),
			Err(x) => Err(Rc::new(x.clone())),
		});
		$c.fam::<[Box<$t>; 2], [$t; 2]>(concat!("[Box<", $tn, ">; 2] ~ [", $tn, "; 2]"), |b| [Box::new(b[0].clone()), Box::new(b[1].clone())]);
		$c.fam::<Vec<Box<$t>>, Vec<$t>>(concat!("Vec<Box<", $tn, ">> ~ Vec<", $tn, ">"), |b| b.iter().cloned().map(Box::new).collect());
		$c.fam_as::<Vec<$t>, &'static [$t], Vec<$t>>(concat!("Vec<", $tn, "> ~ &[", $tn, "]"), |b| b.to_vec());
		$c.fam_as::<VecDeque<$t>, &'static [$t], Vec<$t>>(concat!("VecDeque<", $tn, "> ~ &[", $tn, "]"), |b| b.iter().cloned().collect());
		$c.fam_as::<LinkedList<$t>, &'static [($t,)], Vec<$t>>(concat!("LinkedList<", $tn, "> ~ &[(", $tn, ",)]"), |b| b.iter().cloned().collect());
		$c.fam::<&'static [$t], Vec<$t>>(concat!("&[", $tn, "] ~ Vec<", $tn, ">"), |b| &*Box::leak(b.clone().into_boxed_slice()));
		$c.fam::<VecDeque<$t>, Vec<$t>>(concat!("VecDeque<", $tn, "> ~ Vec<", $tn, ">"), |b| {
			// built so that the ring buffer wraps
			let mut d: VecDeque<$t> = VecDeque::new();
			let h = b.len() / 2;
			for x in &b[h..] {
				d.push_back(x.clone());
			}
			for x in b[..h].iter().rev() {
				d.push_front(x.clone());
			}
			d
		});
		$c.fam::<Vec<$t>, VecDeque<$t>>(concat!("Vec<", $tn, "> ~ VecDeque<", $tn, ">"), |b| b.iter().cloned().collect());
		$c.fam::<&'static [$t], VecDeque<$t>>(concat!("&[", $tn, "] ~ VecDeque<", $tn, ">"), |b| {
			&*Box::leak(b.iter().cloned().collect::<Vec<_>>().into_boxed_slice())
		});
		$c.fam::<VecDeque<$t>, VecDeque<$t>>(concat!("VecDeque<", $tn, "> ~ itself"), |b| b.clone());
		$c.fam::<LinkedList<Box<$t>>, LinkedList<$t>>(concat!("LinkedList<Box<", $tn, ">> ~ LinkedList<", $tn, ">"), |b| b.iter().cloned().map(Box::new).collect());
		$c.fam::<&'static [($t,)], LinkedList<$t>>(concat!("&[(", $tn, ",)] ~ LinkedList<", $tn, ">"), |b| {
			&*Box::leak(b.iter().cloned().map(|x| (x,)).collect::<Vec<_>>().into_boxed_slice())
		});
		$c.fam::<(Box<$t>, &'static $t), ($t, $t)>(concat!("(Box<", $tn, ">, &", $tn, ") ~ (", $tn, ", ", $tn, ")"), |b| {
			(Box::new(b.0.clone()), &*Box::leak(Box::new(b.1.clone())))
		});
		$c.fam::<(Box<$t>,), ($t,)>(concat!("(Box<", $tn, ">,) ~ (", $tn, ",)"), |b| (Box::new(b.0.clone()),));
	}};
}

macro_rules! ordered_for {
	($c:ident, $t:ty, $tn:literal) => {{
		$c.fam::<BTreeSet<Box<$t>>, BTreeSet<$t>>(concat!("BTreeSet<Box<", $tn, ">> ~ BTreeSet<", $tn, ">"), |b| b.iter().cloned().map(Box::new).collect());
		$c.fam::<&'static [($t,)], BTreeSet<$t>>(concat!("&[(", $tn, ",)] ~ BTreeSet<", $tn, ">"), |b| {
			&*Box::leak(b.iter().cloned().map(|x| (x,)).collect::<Vec<_>>().into_boxed_slice())
		});
		$c.fam_decode_only::<&'static [($t,)], BTreeSet<$t>>(concat!("&[(", $tn, ",)] (reversed) ~ BTreeSet<", $tn, ">"), |b| {
			// a slice in another order: the decoded set must still be the same set
			&*Box::leak(b.iter().rev().cloned().map(|x| (x,)).collect::<Vec<_>>().into_boxed_slice())
		});
		$c.fam_decode_only::<&'static [($t, $t)], BTreeMap<$t, $t>>(concat!("&[(", $tn, ", ", $tn, ")] (reversed) ~ BTreeMap"), |b| {
			&*Box::leak(b.iter().rev().map(|(k, v)| (k.clone(), v.clone())).collect::<Vec<_>>().into_boxed_slice())
		});
		// a slice that repeats its elements stands for the same set / map (the repeated entry carries the
		// same value): it must still decode, to that set / map
		$c.fam_decode_only::<&'static [($t,)], BTreeSet<$t>>(concat!("&[(", $tn, ",)] (every element twice) ~ BTreeSet<", $tn, ">"), |b| {
			&*Box::leak(b.iter().flat_map(|x| [(x.clone(),), (x.clone(),)]).collect::<Vec<_>>().into_boxed_slice())
		});
		$c.fam_decode_only::<&'static [($t, $t)], BTreeMap<$t, $t>>(concat!("&[(", $tn, ", ", $tn, ")] (every entry twice) ~ BTreeMap"), |b| {
			&*Box::leak(b.iter().flat_map(|(k, v)| [(k.clone(), v.clone()), (k.clone(), v.clone())]).collect::<Vec<_>>().into_boxed_slice())
		});
		$c.fam_decode_only::<&'static [($t, $t)], BTreeMap<$t, $t>>(concat!("&[(", $tn, ", ", $tn, ")] (first entry repeated at the end) ~ BTreeMap"), |b| {
			&*Box::leak(b.iter().chain(b.iter().take(1)).map(|(k, v)| (k.clone(), v.clone())).collect::<Vec<_>>().into_boxed_slice())
		});
		$c.fam::<BinaryHeap<Box<$t>>, BinaryHeap<$t>>(concat!("BinaryHeap<Box<", $tn, ">> ~ BinaryHeap<", $tn, ">"), |b| b.iter().cloned().map(Box::new).collect());
		$c.fam::<&'static [($t,)], BinaryHeap<$t>>(concat!("&[(", $tn, ",)] ~ BinaryHeap<", $tn, ">"), |b| {
			&*Box::leak(b.iter().cloned().map(|x| (x,)).collect::<Vec<_>>().into_boxed_slice())
		});
		$c.fam::<BTreeMap<Box<$t>, Rc<$t>>, BTreeMap<$t, $t>>(concat!("BTreeMap<Box, Rc> ~ BTreeMap<", $tn, ", ", $tn, ">"), |b| {
			b.iter().map(|(k, v)| (Box::new(k.clone()), Rc::new(v.clone()))).collect()
		});
		$c.fam::<&'static [($t, $t)], BTreeMap<$t, $t>>(concat!("&[(", $tn, ", ", $tn, ")] ~ BTreeMap<", $tn, ", ", $tn, ">"), |b| {
			&*Box::leak(b.iter().map(|(k, v)| (k.clone(), v.clone())).collect::<Vec<_>>().into_boxed_slice())
		});
	}};
}

fn table(c: &mut Ctx) {
	holders_for!(c, u8, "u8");
	holders_for!(c, u32, "u32");
	holders_for!(c, String, "String");
	holders_for!(c, Vec<u16>, "Vec<u16>");
	holders_for!(c, (u8, bool), "(u8, bool)");
	ordered_for!(c, u8, "u8");
	ordered_for!(c, u32, "u32");
	ordered_for!(c, String, "String");
	// ?Sized targets
	c.fam_as::<String, &'static str, String>("String ~ &str", |b| b.to_string());
	c.fam_as::<bytes::Bytes, &'static [u8], Vec<u8>>("Bytes ~ &[u8]", |b| bytes::Bytes::from(b.clone()));
	c.fam::<&'static str, String>("&str ~ String", |b| &*Box::leak(b.clone().into_boxed_str()));
	c.fam::<bytes::Bytes, Vec<u8>>("Bytes ~ Vec<u8>", |b| bytes::Bytes::from(b.clone()));
	c.fam::<Vec<u8>, bytes::Bytes>("Vec<u8> ~ Bytes", |b| b.to_vec());
	c.fam::<&'static [u8], bytes::Bytes>("&[u8] ~ Bytes", |b| &*Box::leak(b.to_vec().into_boxed_slice()));
	c.fam::<bytes::Bytes, bytes::Bytes>("Bytes ~ itself", |b| b.clone());
	// tuples of arity 18 element-wise
	c.fam::<
		(Box<u8>, Box<u8>, Box<u8>, Box<u8>, Box<u8>, Box<u8>, Box<u8>, Box<u8>, Box<u8>, Box<u8>, Box<u8>, Box<u8>, Box<u8>, Box<u8>, Box<u8>, Box<u8>, Box<u8>, Box<u16>),
		(u8, u8, u8, u8, u8, u8, u8, u8, u8, u8, u8, u8, u8, u8, u8, u8, u8, u16),
	>("18-tuple of boxes ~ 18-tuple", |b| {
		(
			Box::new(b.0), Box::new(b.1), Box::new(b.2), Box::new(b.3), Box::new(b.4), Box::new(b.5), Box::new(b.6), Box::new(b.7), Box::new(b.8),
			Box::new(b.9), Box::new(b.10), Box::new(b.11), Box::new(b.12), Box::new(b.13), Box::new(b.14), Box::new(b.15), Box::new(b.16), Box::new(b.17),
		)
	});
	// reflexive markers
	c.fam::<OptionBool, OptionBool>("OptionBool ~ itself", |b| *b);
	c.fam::<std::time::Duration, std::time::Duration>("Duration ~ itself", |b| *b);
	c.fam::<std::marker::PhantomData<u8>, std::marker::PhantomData<u8>>("PhantomData ~ itself", |b| *b);
	c.fam::<(), ()>("() ~ itself", |_| ());
	c.fam::<bool, bool>("bool ~ itself", |b| *b);
	c.fam::<std::num::NonZeroU32, std::num::NonZeroU32>("NonZeroU32 ~ itself", |b| *b);
	c.fam::<std::num::NonZeroI8, std::num::NonZeroI8>("NonZeroI8 ~ itself", |b| *b);
	c.fam::<f64, f64>("f64 ~ itself", |b| *b);
	c.fam::<i128, i128>("i128 ~ itself", |b| *b);
	c.fam::<Compact<u8>, Compact<u8>>("Compact<u8> ~ itself", |b| *b);
	c.fam::<Compact<u32>, Compact<u32>>("Compact<u32> ~ itself", |b| *b);
	c.fam::<Compact<u64>, Compact<u64>>("Compact<u64> ~ itself", |b| *b);
	c.fam::<Compact<u128>, Compact<u128>>("Compact<u128> ~ itself", |b| *b);
	c.fam::<bitvec::vec::BitVec<u8, bitvec::order::Lsb0>, bitvec::vec::BitVec<u8, bitvec::order::Lsb0>>("BitVec ~ itself", |b| b.clone());
	c.fam::<bitvec::boxed::BitBox<u16, bitvec::order::Msb0>, bitvec::boxed::BitBox<u16, bitvec::order::Msb0>>("BitBox ~ itself", |b| b.clone());
	c.fam::<generic_array::GenericArray<u16, generic_array::typenum::U3>, generic_array::GenericArray<u16, generic_array::typenum::U3>>(
		"GenericArray ~ itself",
		|b| b.clone(),
	);
	c.fam::<subjects::derived::Pt, subjects::derived::Pt>("derived struct ~ itself", |b| b.clone());
	c.fam::<CA, CA>("derived CompactAs struct ~ itself", |b| b.clone());
}

// ---- probe matrix: every ordered pair of a list of concrete types is asked at compile time whether
// ---- `A: EncodeLike<B>` is declared; declared pairs are checked, so that a *newly added* false
// ---- declaration between these types is decided too (not only the hand-written table).

pub struct PairProbe<A, B>(pub std::marker::PhantomData<(A, B)>);
pub trait PairFallback {
	fn run(&self, _name: &str, _acc: &mut Acc) -> bool {
		false
	}
}
impl<A, B> PairFallback for PairProbe<A, B> {}
impl<A: Subject + Encode + EncodeLike<B>, B: Subject + Encode + Decode> PairProbe<A, B> {
	pub fn run(&self, name: &str, acc: &mut Acc) -> bool {
		let sa = A::shape();
		let sb = B::shape();
		for v in domain::values(&sa, &domain::Bound::small()) {
			let Ok(want) = ref_enc(&sa, &v) else { continue };
			let a = A::from_value(&v);
			acc.evaluations += 1;
			acc.transitions += 2;
			let r: Result<(), String> = (|| {
				let got = guarded(|| a.encode()).map_err(|p| format!("encode panicked: {}", p))?;
				if !sa.order_free() && got != want {
					return Err(format!("alias encodes to {} but the reference encoding of its value is {}", hex(&got), hex(&want)));
				}
				let mut s = &got[..];
				let b = guarded(|| B::decode(&mut s)).map_err(|p| format!("decode panicked: {}", p))?.map_err(|e| {
					format!("bytes {} of the alias value {} do not decode as the declared target: {}", hex(&got), value_short(&v), e)
				})?;
				if !s.is_empty() {
					return Err(format!("decoding the alias' bytes {} as the declared target leaves {} bytes", hex(&got), s.len()));
				}
				// the target value re-encodes to the same bytes unless the target reorders (sets, maps, heaps)
				let reorders = sb.order_free() || format!("{:?}", sb).contains("Set") || format!("{:?}", sb).contains("Map(");
				if !reorders && b.encode() != got {
					return Err(format!("the target value decoded from {} re-encodes differently", hex(&got)));
				}
				Ok(())
			})();
			match r {
				Ok(()) => {
					acc.states += 1;
					acc.traces += 1;
					acc.nontrivial += 1;
				},
				Err(detail) => acc.violate(Violation {
					property: "C16".into(),
					sub: "C16.matrix".into(),
					key: format!("C16|declared {}", name),
					detail: format!("{}: {}", name, detail),
					case: json!({"sub": "C16.matrix", "pair": name}),
				}),
			}
		}
		true
	}
}

macro_rules! matrix_row {
	($acc:ident, $only:ident, $declared:ident, $a:ty, $an:literal; $( $b:ty, $bn:literal );* ) => {$(
		{
			#[allow(unused_imports)]
			use PairFallback as _;
			let name = concat!($an, " ~ ", $bn);
			if $only.map_or(true, |o: &str| o == name) {
				if PairProbe::<$a, $b>(std::marker::PhantomData).run(name, $acc) {
					$declared += 1;
					$acc.outcome(name);
				}
			}
		}
	)*};
}
macro_rules! matrix {
	($acc:ident, $only:ident, $declared:ident; $( $t:ty, $n:literal );* ) => {
		matrix!(@rows $acc, $only, $declared; [$( $t, $n );*]; $( $t, $n );*);
	};
	(@rows $acc:ident, $only:ident, $declared:ident; [$( $bt:ty, $bn:literal );*]; $a:ty, $an:literal $(; $rt:ty, $rn:literal )* ) => {
		matrix_row!($acc, $only, $declared, $a, $an; $( $bt, $bn );*);
		matrix!(@rows $acc, $only, $declared; [$( $bt, $bn );*]; $( $rt, $rn );*);
	};
	(@rows $acc:ident, $only:ident, $declared:ident; [$( $bt:ty, $bn:literal );*]; ) => {};
}

/// Returns the number of declared pairs found among the probed types.
pub fn probe_matrix(acc: &mut Acc, only: Option<&str>) -> u64 {
	let mut declared = 0u64;
	matrix!(acc, only, declared;
		u8, "u8"; u32, "u32"; i64, "i64"; bool, "bool"; (), "()"; String, "String"; Compact<u32>, "Compact<u32>";
		Vec<u8>, "Vec<u8>"; Vec<u32>, "Vec<u32>"; Vec<Box<u32>>, "Vec<Box<u32>>"; Vec<(u32,)>, "Vec<(u32,)>"; VecDeque<u32>, "VecDeque<u32>"; VecDeque<u8>, "VecDeque<u8>";
		LinkedList<u32>, "LinkedList<u32>"; BTreeSet<u32>, "BTreeSet<u32>"; BinaryHeap<u32>, "BinaryHeap<u32>"; BTreeMap<u32, u32>, "BTreeMap<u32, u32>";
		Box<u32>, "Box<u32>"; Rc<u32>, "Rc<u32>"; Arc<u32>, "Arc<u32>"; Cow<'static, u32>, "Cow<u32>"; Box<String>, "Box<String>"; Cow<'static, str>, "Cow<str>";
		Option<u32>, "Option<u32>"; Option<Box<u32>>, "Option<Box<u32>>"; Option<bool>, "Option<bool>"; OptionBool, "OptionBool"; Result<u32, u8>, "Result<u32, u8>"; Result<Box<u32>, Rc<u8>>, "Result<Box<u32>, Rc<u8>>";
		(u32,), "(u32,)"; (u32, u8), "(u32, u8)"; (Box<u32>, Rc<u8>), "(Box<u32>, Rc<u8>)"; [u32; 2], "[u32; 2]"; [Box<u32>; 2], "[Box<u32>; 2]"; [u8; 4], "[u8; 4]";
		bytes::Bytes, "Bytes"; std::time::Duration, "Duration"; u64, "u64"; Compact<u64>, "Compact<u64>"; std::num::NonZeroU32, "NonZeroU32"
	);
	declared
}

/// `CompactRef<T: CompactAs>` is `EncodeLike` itself and must produce the bytes of `Compact<T>`.
fn compact_ref(acc: &mut Acc) {
	for x in domain::uint_boundary(32) {
		let ca = CA(x as u32);
		let r = CompactRef(&ca);
		fn like<T: EncodeLike>(_: &T) {}
		like(&r);
		let got = r.encode();
		let mut want = vec![];
		refmodel::enc_compact(x, &mut want);
		acc.evaluations += 1;
		acc.transitions += 1;
		if got == want && <Compact<CA>>::decode(&mut &got[..]).map(|c| c.0) == Ok(ca) {
			acc.states += 1;
			acc.traces += 1;
			acc.nontrivial += 1;
		} else {
			acc.violate(Violation {
				property: "C16".into(),
				sub: "C16.cref".into(),
				key: "C16|CompactRef<CompactAs>".into(),
				detail: format!("CompactRef(&CA({})) encodes to {} expected {}", x, hex(&got), hex(&want)),
				case: json!({"sub": "C16.cref"}),
			});
		}
	}
	acc.outcome("CompactRef<CompactAs> ~ Compact");
}

pub fn count_impl_lines() -> usize {
	let mut n = 0;
	for f in ["src/codec.rs", "src/encode_like.rs", "src/compact.rs", "src/bit_vec.rs", "src/generic_array.rs"] {
		let root = std::env::var("REPO_ROOT").unwrap_or_else(|_| "/repo".to_string());
		if let Ok(s) = std::fs::read_to_string(format!("{}/{}", root, f)) {
			// stop at the test module
			let body = s.split("#[cfg(test)]").next().unwrap_or("");
			n += body.lines().filter(|l| l.contains("EncodeLike") && l.trim_start().starts_with("impl")).count();
		}
	}
	n
}

pub fn run(tier: Tier, reg: &[VT]) -> Report {
	let mut rep = Report::new("C16", tier);
	let mut acc = Acc::default();
	{
		let mut c = Ctx { acc: &mut acc, only: None };
		table(&mut c);
	}
	compact_ref(&mut acc);
	let families = acc.outcomes.len();
	let mut macc = Acc::default();
	let declared = probe_matrix(&mut macc, None);
	macc.add("declared_pairs_found", declared);
	macc.add("pairs_probed", 40 * 40);
	macc.sample(json!({"pair": "Vec<Box<u32>> ~ Vec<u32>", "how": "declared (found by the compile-time probe); every boundary value of the alias decodes as the target"}));
	acc.sample(json!({"family": "VecDeque<u32> ~ Vec<u32>", "alias_value": "wrapped deque [1, 2, 3]", "target": "Vec<u32>", "bytes": "0c010000000200000003000000"}));
	let lines = count_impl_lines();
	if lines != IMPL_LINES_AT_PINNED_COMMIT {
		acc.notes.insert(format!(
			"completeness tripwire: the crate now has {} `impl .. EncodeLike` lines, the pair table was written against {}; newly declared pairs are not decided (warning, not a violation)",
			lines, IMPL_LINES_AT_PINNED_COMMIT
		));
	}
	acc.add("encode_like_impl_lines", lines as u64);
	acc.add("families", families as u64);
	rep.part("pair table", "every EncodeLike<B> for A family instantiated with concrete types x the boundary domain of B: alias bytes == reference encoding of the target value and decode as B to it", acc);

	rep.part("probe matrix", "all 1600 ordered pairs of 40 concrete types are asked at compile time whether A: EncodeLike<B> is declared; every declared pair x boundary values of A: bytes == reference encoding, decode as B succeeds consuming everything", macc);

	// the derive-emitted `EncodeLike for Self`: alias forms of every derived type in the registry
	let derived: Vec<&VT> = reg.iter().filter(|v| v.class == "derived").collect();
	let acc = par(&derived, |vt, acc| {
		let shape = (vt.shape)();
		for v in domain::reduced(&shape) {
			acc.evaluations += 1;
			// `T: EncodeLike<Box<T>>` etc. are declared for every encodable T: the bytes of the plain value
			// must decode as the holder to the same value
			let as_holders = |vt: &VT| -> Result<usize, String> {
				let Ok(enc) = ref_enc(&shape, &v) else { return Ok(0) };
				let enc = if shape.order_free() { (vt.encode)(&v) } else { enc };
				let rs = guarded(|| (vt.decode_holders)(&enc)).map_err(|p| format!("decoding as a holder panicked: {}", p))?;
				for (name, r) in &rs {
					match r {
						Ok(d) if d.consumed == enc.len() && shape.normalize(&d.value) == shape.normalize(&v) => {},
						Ok(d) => return Err(format!("the bytes {} of the plain value decode as {} to {} consuming {}", hex(&enc), name, value_short(&d.value), d.consumed)),
						Err(e) => return Err(format!("the bytes {} of the plain value do not decode as {}: {}", hex(&enc), name, e)),
					}
				}
				Ok(rs.len())
			};
			match super::c06::holders(vt, &shape, &v).and_then(|n| as_holders(vt).map(|m| n + m)) {
				Ok(n) => {
					acc.states += 1;
					acc.traces += n as u64;
					acc.transitions += n as u64;
					acc.nontrivial += 1;
					acc.outcome("derived-alias-forms");
				},
				Err(detail) => acc.violate(Violation {
					property: "C16".into(),
					sub: "C16.derived".into(),
					key: format!("C16|{}|derived-alias", vt.name),
					detail,
					case: json!({"sub": "C16.derived", "type": vt.name, "value": value_to_json(&v)}),
				}),
			}
		}
	});
	rep.part("derived types", "every generated derive definition behind &T / Box / Rc / Arc alias forms, and the bytes of the plain value decoded as Box<T> / Rc<T> / Arc<T> / Box<Box<T>> / [T; 1]", acc);

	rep.rule = "case = (EncodeLike family instantiated with concrete types, value of the target type's boundary domain); the compiler checks that every listed pair is declared; non-trivial = all".into();
	rep.bounds = json!({"element_types": ["u8", "u32", "String", "Vec<u16>", "(u8, bool)"], "families": families});
	rep.assumptions = vec!["a newly added false EncodeLike declaration is decided if it relates two of the 40 probed concrete types (or a family of the table); otherwise it only trips the completeness warning".into()];
	rep
}

pub fn replay(reg: &[VT], case: &Json) -> Option<String> {
	match case["sub"].as_str().unwrap() {
		"C16.pair" => {
			let mut acc = Acc::default();
			let fam = case["family"].as_str().unwrap().to_string();
			{
				let mut c = Ctx { acc: &mut acc, only: Some(&fam) };
				table(&mut c);
			}
			acc.violations.first().map(|v| v.detail.clone())
		},
		"C16.matrix" => {
			let mut acc = Acc::default();
			probe_matrix(&mut acc, case["pair"].as_str());
			acc.violations.first().map(|v| v.detail.clone())
		},
		"C16.cref" => {
			let mut acc = Acc::default();
			compact_ref(&mut acc);
			acc.violations.first().map(|v| v.detail.clone())
		},
		"C16.derived" => {
			let vt = find_vt(reg, case["type"].as_str().unwrap());
			let shape = (vt.shape)();
			let v = value_from_json(&case["value"]);
			super::c06::holders(vt, &shape, &v).err().or_else(|| {
				let enc = ref_enc(&shape, &v).ok()?;
				(vt.decode_holders)(&enc).into_iter().find_map(|(name, r)| match r {
					Ok(d) if d.consumed == enc.len() && shape.normalize(&d.value) == shape.normalize(&v) => None,
					Ok(_) => Some(format!("decodes as {} to a different value", name)),
					Err(e) => Some(format!("does not decode as {}: {}", name, e)),
				})
			})
		},
		_ => None,
	}
}

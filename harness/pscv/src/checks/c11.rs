//! C11 — depth-limited decoding is transparent, monotone and stack-safe.

use crate::{checks::c03, common::*, wrapm};
use parity_scale_codec::{Decode, DecodeLimit, Encode};
use refmodel::{domain, ref_enc, side, Shape, Value};
use serde_json::{json, Value as Json};
use subjects::{
	drivers::{Cmd, Wrap},
	vt::VT,
};

fn has_container(shape: &Shape) -> bool {
	side::may_hold_heap(shape)
}

/// Everything the property says about one valid encoding, for every limit 0..=depth+2.
pub fn limits(vt: &VT, shape: &Shape, v: &Value) -> Result<(u32, u32), String> {
	let Ok(enc) = ref_enc(shape, v) else { return Ok((0, 0)) };
	let enc = if shape.order_free() { guarded(|| (vt.encode)(v)).map_err(|p| format!("encode panicked: {}", p))? } else { enc };
	let d = side::depth_all(shape, v);
	let dmin = side::depth_min(shape, v);
	let unlimited = guarded(|| (vt.decode)(&enc)).map_err(|p| format!("decode panicked: {}", p))?;
	let Ok(un) = &unlimited else { return Err("decode of a valid encoding failed".into()) };
	let mut first_ok: Option<u32> = None;
	let mut with_trailing = enc.clone();
	with_trailing.push(0);
	for l in 0..=d + 2 {
		let r = guarded(|| (vt.decode_depth)(l, &enc)).map_err(|p| format!("decode_with_depth_limit({}) panicked: {}", l, p))?;
		match &r {
			Ok(ok) => {
				if shape.normalize(&ok.value) != shape.normalize(&un.value) || ok.consumed != un.consumed {
					return Err(format!("limit {}: returns something other than the unlimited decode", l));
				}
				if first_ok.is_none() {
					first_ok = Some(l);
				}
				if l < dmin {
					return Err(format!(
						"limit {} succeeds although the value recurses through {} levels of heap containers ({})",
						l,
						dmin,
						value_short(v)
					));
				}
			},
			Err(e) => {
				if first_ok.is_some() {
					return Err(format!("not monotone: limit {} fails ({}) after limit {} succeeded", l, e, first_ok.unwrap()));
				}
				if l >= d {
					return Err(format!("limit {} fails ({}) although the container nesting depth of the value is {}", l, e, d));
				}
			},
		}
		// the consume-everything variant: same outcome here, Err with a trailing byte
		let a = guarded(|| (vt.decode_all_depth)(l, &enc)).map_err(|p| format!("decode_all_with_depth_limit panicked: {}", p))?;
		if a.is_ok() != r.is_ok() {
			return Err(format!("limit {}: decode_all_with_depth_limit and decode_with_depth_limit disagree", l));
		}
		if let (Ok(av), Ok(rv)) = (&a, &r) {
			if shape.normalize(av) != shape.normalize(&rv.value) {
				return Err(format!("limit {}: decode_all_with_depth_limit returns a different value", l));
			}
		}
		let t = guarded(|| (vt.decode_all_depth)(l, &with_trailing)).map_err(|p| format!("decode_all_with_depth_limit panicked: {}", p))?;
		if t.is_ok() {
			return Err(format!("limit {}: decode_all_with_depth_limit accepts a trailing byte", l));
		}
	}
	Ok((d, first_ok.unwrap_or(d + 3)))
}

/// On arbitrary bytes: every limited result is the unlimited result or an error, monotone in L.
pub fn bytes_node(vt: &VT, shape: &Shape, x: &[u8]) -> Result<(&'static str, bool), String> {
	let un = guarded(|| (vt.decode)(x)).map_err(|p| format!("decode panicked: {}", p))?;
	let mut ok_seen = false;
	for l in [0u32, 1, 2, 3, 8] {
		let r = guarded(|| (vt.decode_depth)(l, x)).map_err(|p| format!("decode_with_depth_limit({}) panicked: {}", l, p))?;
		match (&r, &un) {
			(Ok(a), Ok(b)) => {
				if shape.normalize(&a.value) != shape.normalize(&b.value) || a.consumed != b.consumed {
					return Err(format!("limit {}: result differs from the unlimited decode", l));
				}
				ok_seen = true;
			},
			(Ok(_), Err(_)) => return Err(format!("limit {} succeeds where the unlimited decode fails", l)),
			(Err(_), _) =>
				if ok_seen {
					return Err(format!("not monotone in the limit at {}", l));
				},
		}
		// the consume-everything variant: Ok exactly when the limited decode is Ok and nothing is left
		let a = guarded(|| (vt.decode_all_depth)(l, x)).map_err(|p| format!("decode_all_with_depth_limit({}) panicked: {}", l, p))?;
		let want_ok = matches!(&r, Ok(ok) if ok.consumed == x.len());
		if want_ok && l <= 1 {
			// the lazy exploration never extends a string nobody looked past: do it here
			let mut y = x.to_vec();
			y.push(0);
			let b = guarded(|| (vt.decode_all_depth)(l, &y)).map_err(|p| format!("decode_all_with_depth_limit({}) panicked: {}", l, p))?;
			if b.is_ok() {
				return Err(format!("limit {}: decode_all_with_depth_limit accepts a trailing byte after a complete value", l));
			}
		}
		if a.is_ok() != want_ok {
			return Err(format!(
				"limit {}: decode_all_with_depth_limit {} although decode_with_depth_limit {}",
				l,
				if a.is_ok() { "succeeds" } else { "fails" },
				match &r {
					Ok(ok) => format!("consumes {} of {} bytes", ok.consumed, x.len()),
					Err(_) => "fails".to_string(),
				}
			));
		}
	}
	Ok((if un.is_ok() { "ok" } else { "err" }, c03::open_node(vt, shape, x)))
}

// ---- stack safety on adversarially deep input -------------------------------------------------

#[derive(Encode, Decode)]
pub enum Tree {
	Leaf,
	Node(Box<Tree>),
}
#[derive(Encode, Decode)]
pub struct N(pub Vec<N>);
#[derive(Encode, Decode)]
pub enum Expr {
	Lit(u8),
	Neg(std::rc::Rc<Expr>),
	Seq(std::collections::VecDeque<Expr>),
	Map(std::collections::BTreeMap<u8, Expr>),
	Opt(Option<std::sync::Arc<Expr>>),
	List(std::collections::LinkedList<Expr>),
}

pub const DEEP_KINDS: [&str; 7] = ["Tree", "N", "Expr::Neg", "Expr::Seq", "Expr::Map", "Expr::Opt", "Expr::List"];

fn deep_input(kind: &str, levels: usize) -> Vec<u8> {
	let (unit, end): (&[u8], &[u8]) = match kind {
		"Tree" => (&[1], &[0]),
		"N" => (&[4], &[0]),
		"Expr::Neg" => (&[1], &[0, 7]),
		"Expr::Seq" => (&[2, 4], &[0, 7]),
		"Expr::Map" => (&[3, 4, 9], &[0, 7]),
		"Expr::Opt" => (&[4, 1], &[0, 7]),
		_ => (&[5, 4], &[0, 7]),
	};
	let mut v = Vec::with_capacity(levels * unit.len() + 2);
	for _ in 0..levels {
		v.extend_from_slice(unit);
	}
	v.extend_from_slice(end);
	v
}

fn deep_decode(kind: &str, limit: u32, input: &[u8]) -> bool {
	let mut s = input;
	match kind {
		"Tree" => Tree::decode_with_depth_limit(limit, &mut s).is_ok(),
		"N" => N::decode_with_depth_limit(limit, &mut s).is_ok(),
		_ => Expr::decode_with_depth_limit(limit, &mut s).is_ok(),
	}
}

/// Worker: decodes a `levels`-deep input of `kind` under each limit on a 2 MiB stack.
pub fn worker(args: &[String]) -> i32 {
	let kind = args[0].clone();
	let levels: usize = args[1].parse().unwrap();
	let limits: Vec<u32> = args[2].split(',').map(|s| s.parse().unwrap()).collect();
	let input = deep_input(&kind, levels);
	for l in limits {
		println!("{}", json!({"start": l}));
		let k = kind.clone();
		let inp = input.clone();
		let h = std::thread::Builder::new().stack_size(2 << 20).spawn(move || deep_decode(&k, l, &inp)).unwrap();
		let ok = h.join().unwrap_or(true);
		println!("{}", json!({"done": l, "ok": ok}));
	}
	0
}

fn stack_safety(tier: Tier) -> Acc {
	let levels = 1_000_000usize;
	let mut limits: Vec<u32> = (0..=64).collect();
	limits.extend_from_slice(&[128, 256]);
	if tier.thorough() {
		limits.extend_from_slice(&[512, 1024]);
	}
	let lim_s = limits.iter().map(|l| l.to_string()).collect::<Vec<_>>().join(",");
	let kinds: Vec<&str> = DEEP_KINDS.to_vec();
	par(&kinds, |kind, acc| {
		let (code, sig, out) = spawn_worker(&["c11deep".into(), kind.to_string(), levels.to_string(), lim_s.clone()]);
		let mut in_flight: Option<u64> = None;
		for line in out.lines() {
			let Ok(j) = serde_json::from_str::<Json>(line) else { continue };
			if let Some(l) = j["start"].as_u64() {
				in_flight = Some(l);
			}
			if let Some(l) = j["done"].as_u64() {
				in_flight = None;
				acc.evaluations += 1;
				acc.transitions += 1;
				if j["ok"] == json!(false) {
					acc.states += 1;
					acc.traces += 1;
					acc.nontrivial += 1;
					acc.outcome("deep-input-rejected");
				} else {
					acc.violate(Violation {
						property: "C11".into(),
						sub: "C11.deep".into(),
						key: format!("C11|{}|deep-input", kind),
						detail: format!("a {}-level deep {} input was accepted (or the decoding thread died) under depth limit {}", levels, kind, l),
						case: json!({"sub": "C11.deep", "kind": kind, "levels": levels, "limit": l}),
					});
				}
			}
		}
		if code != Some(0) || in_flight.is_some() {
			acc.violate(Violation {
				property: "C11".into(),
				sub: "C11.deep".into(),
				key: format!("C11|{}|deep-input", kind),
				detail: format!(
					"decoding a {}-level deep {} input under depth limit {:?} killed the process (exit {:?}, signal {:?}): stack exhaustion instead of an error",
					levels, kind, in_flight, code, sig
				),
				case: json!({"sub": "C11.deep", "kind": kind, "levels": levels, "limit": in_flight.unwrap_or(0)}),
			});
		}
	})
}

pub fn run(tier: Tier, reg: &[VT]) -> Report {
	let mut rep = Report::new("C11", tier);
	let t = tier.thorough();
	// types that cannot hold heap data have depth 0: every limit must behave like no limit (they are
	// cheap, and fast paths keyed on "flat" types live exactly there)
	let types: Vec<&VT> = reg.iter().collect();
	let with_containers = types.iter().filter(|v| has_container(&(v.shape)())).count();
	let b = if t { domain::Bound::quick() } else { domain::Bound::small() };
	let acc = par(&types, |vt, acc| {
		heartbeat(vt.name);
		let shape = (vt.shape)();
		let mut vals = domain::values(&shape, &b);
		// wide-but-shallow: vectors spanning several preallocation chunks must not need a deeper limit
		if vt.core || t {
			if let Shape::Seq(k, e) = &shape {
				if !e.zero_width() && !matches!(k, refmodel::SeqKind::Set) {
					for n in [700usize, 2100, 8200, 16400, 33000] {
						vals.push(Value::List((0..n).map(|i| domain::fill(e, i)).collect()));
					}
				}
			}
		}
		for v in vals {
			acc.evaluations += 1;
			match limits(vt, &shape, &v) {
				Ok((d, first)) => {
					acc.states += (d + 3) as u64;
					acc.traces += (d + 3) as u64;
					acc.transitions += 3 * (d + 3) as u64;
					if d > 0 {
						acc.nontrivial += 1;
					}
					acc.outcome(&format!("depth{}-needs{}", d.min(6), first.min(9)));
					if d >= 3 && acc.samples.len() < 2 {
						acc.sample(json!({"type": vt.name, "value": value_short(&v), "container_depth": d, "smallest_accepting_limit": first}));
					}
				},
				Err(detail) => acc.violate(Violation {
					property: "C11".into(),
					sub: "C11.limits".into(),
					key: format!("C11|{}|limits", vt.name),
					detail,
					case: json!({"sub": "C11.limits", "type": vt.name, "value": value_to_json(&v)}),
				}),
			}
		}
	});
	rep.part("every limit on valid encodings", "every registry type (those that cannot hold heap data have depth 0) x boundary values x every limit 0..=depth+2: result is the unlimited result or an error, monotone, Ok for L >= D_all, Err for L < D_min; wide-but-shallow vectors spanning several preallocation chunks; consume-all variant", acc);

	let all: Vec<&VT> = reg.iter().collect();
	let acc = c03::explore_all("C11", "C11.bytes", bytes_node, &all, &c03::ALL, if t { 2 } else { 1 }, u64::MAX, false);
	rep.part("limits on arbitrary bytes (all bytes)", "every byte string x limits {0,1,2,3,8}: limited result is the unlimited result or an error, monotone", acc);
	let (d, cap) = if t { (5, 300_000u64) } else { (4, 10_000u64) };
	let acc = c03::explore_all("C11", "C11.bytes", bytes_node, &all, &c03::B, d, cap, true);
	if acc.extra.get("types_capped").copied().unwrap_or(0) > 0 {
		rep.caps.push(format!("arbitrary-bytes exploration: run cap {} per type hit for {} types", cap, acc.extra["types_capped"]));
	}
	rep.part("limits on arbitrary bytes (reduced alphabet)", &format!("depth {} cap {}", d, cap), acc);

	// the depth tracker as a state machine, binding limits at every stack position
	let mut stacks: Vec<Vec<Wrap>> = vec![];
	for k in 0..=3u32 {
		stacks.push(vec![Wrap::Depth(k)]);
		stacks.push(vec![Wrap::Counted, Wrap::Depth(k)]);
		stacks.push(vec![Wrap::Depth(k), Wrap::Counted]);
		stacks.push(vec![Wrap::Mem(usize::MAX), Wrap::Depth(k), Wrap::Counted]);
		stacks.push(vec![Wrap::Depth(k), Wrap::Mem(usize::MAX)]);
		for j in 0..=2u32 {
			stacks.push(vec![Wrap::Depth(k), Wrap::Depth(j)]);
		}
	}
	let alphabet = [Cmd::Descend, Cmd::Ascend, Cmd::ReadByte, Cmd::Alloc(1), Cmd::Len];
	let depth = if t { 9 } else { 7 };
	let acc = wrapm::explore(&stacks, &alphabet, depth, "C11", "C11.machine");
	rep.part("depth tracker as a state machine", &format!("every program of <= {} calls {{descend, ascend (balanced), read_byte, alloc, remaining_len}} through {} stacks with binding depth limits 0..3 at every position vs the reference counter", depth, stacks.len()), acc);

	let acc = stack_safety(tier);
	rep.part("stack safety", "10^6-level deep inputs of recursive derived types (through Box, Vec, Rc, VecDeque, BTreeMap, Option<Arc>, LinkedList) x limits 0..=64, 128, 256 on a 2 MiB stack in a worker process: rejected, thread survives", acc);

	rep.rule = "case = (type, value, limit) for every limit 0..=depth+2, (type, byte string, limit), (wrapper stack, program of Input calls), (recursive type, 10^6 levels, limit); \
		the exact threshold is deliberately not pinned: Ok is required for L >= D_all (every heap container on a path counts 1), Err for L < D_min (containers the decoder must recurse through; bulk byte/number buffers and empty collections do not count). non-trivial = depth > 0"
		.into();
	rep.bounds = json!({"types": types.len(), "types_with_containers": with_containers, "machine_depth": depth, "deep_levels": 1000000});
	rep
}

pub fn replay(reg: &[VT], case: &Json) -> Option<String> {
	match case["sub"].as_str().unwrap() {
		"C11.limits" => {
			let vt = find_vt(reg, case["type"].as_str().unwrap());
			limits(vt, &(vt.shape)(), &value_from_json(&case["value"])).err()
		},
		"C11.bytes" => {
			let vt = find_vt(reg, case["type"].as_str().unwrap());
			bytes_node(vt, &(vt.shape)(), &unhex(case["bytes"].as_str().unwrap())).err()
		},
		"C11.machine" => wrapm::replay(case),
		"C11.deep" => {
			let kind = case["kind"].as_str().unwrap().to_string();
			let (code, sig, out) = spawn_worker(&["c11deep".into(), kind, case["levels"].as_u64().unwrap().to_string(), case["limit"].as_u64().unwrap().to_string()]);
			if code != Some(0) {
				return Some(format!("worker died (exit {:?}, signal {:?})", code, sig));
			}
			if out.contains("\"ok\":true") {
				return Some("deep input accepted".into());
			}
			None
		},
		_ => None,
	}
}

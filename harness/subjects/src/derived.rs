//! Derived subject types. Hand-written helpers live here; the generated corpus is in
//! `derived_gen.rs` (written by /verif/gen/gen_derive.py).

use crate::{vt::VT, Subject};
use parity_scale_codec::{Decode, Encode, EncodeAsRef, Error, Input, Output};
use refmodel::{Shape, Value};

/// A field type with a custom `encoded_as` representation: plain derive encodes `x` then `y`,
/// `PtRev` encodes `y` then `x`.
#[derive(Clone, Debug, Default, PartialEq, Eq, PartialOrd, Ord, Encode, Decode, parity_scale_codec::DecodeWithMemTracking, parity_scale_codec::MaxEncodedLen)]
pub struct Pt {
	pub x: u8,
	pub y: u16,
}

pub struct PtRev(pub Pt);
pub struct PtRevRef<'a>(pub &'a Pt);

impl<'a> From<&'a Pt> for PtRevRef<'a> {
	fn from(p: &'a Pt) -> Self {
		PtRevRef(p)
	}
}
impl Encode for PtRevRef<'_> {
	fn encode_to<W: Output + ?Sized>(&self, dest: &mut W) {
		self.0.y.encode_to(dest);
		self.0.x.encode_to(dest);
	}
}
impl<'a> EncodeAsRef<'a, Pt> for PtRev {
	type RefType = PtRevRef<'a>;
}
impl Decode for PtRev {
	fn decode<I: Input>(input: &mut I) -> Result<Self, Error> {
		let y = u16::decode(input)?;
		let x = u8::decode(input)?;
		Ok(PtRev(Pt { x, y }))
	}
}
impl parity_scale_codec::DecodeWithMemTracking for PtRev {}
impl From<PtRev> for Pt {
	fn from(p: PtRev) -> Pt {
		p.0
	}
}
impl parity_scale_codec::MaxEncodedLen for PtRev {
	fn max_encoded_len() -> usize {
		3
	}
}
impl Encode for PtRev {
	fn encode_to<W: Output + ?Sized>(&self, dest: &mut W) {
		PtRevRef(&self.0).encode_to(dest)
	}
}

impl Subject for Pt {
	fn shape() -> Shape {
		Shape::Struct(vec![
			refmodel::Field { shape: Shape::UInt(8), skip: false },
			refmodel::Field { shape: Shape::UInt(16), skip: false },
		])
	}
	fn from_value(v: &Value) -> Self {
		match v {
			Value::List(xs) => Pt { x: u8::from_value(&xs[0]), y: u16::from_value(&xs[1]) },
			_ => panic!("bad Pt value"),
		}
	}
	fn to_value(&self) -> Value {
		Value::List(vec![self.x.to_value(), self.y.to_value()])
	}
}

pub fn ptrev_shape() -> Shape {
	Shape::Tuple(vec![Shape::UInt(16), Shape::UInt(8)])
}
pub fn ptrev_from(v: &Value) -> Pt {
	match v {
		Value::List(xs) => Pt { y: u16::from_value(&xs[0]), x: u8::from_value(&xs[1]) },
		_ => panic!("bad PtRev value"),
	}
}
pub fn ptrev_to(p: &Pt) -> Value {
	Value::List(vec![p.y.to_value(), p.x.to_value()])
}

/// A type that is zero-sized in memory but not on the wire (one index byte).
#[derive(Clone, Copy, Debug, Default, PartialEq, Eq, PartialOrd, Ord, Encode, Decode, parity_scale_codec::DecodeWithMemTracking, parity_scale_codec::MaxEncodedLen)]
pub enum ZE {
	#[default]
	#[codec(index = 7)]
	Only,
}
impl Subject for ZE {
	fn shape() -> Shape {
		Shape::Enum(vec![refmodel::Variant { index: Some(7), fields: vec![] }])
	}
	fn from_value(_: &Value) -> Self {
		ZE::Only
	}
	fn to_value(&self) -> Value {
		Value::Variant(0, vec![])
	}
}

/// A newtype deriving `CompactAs`, used as a `#[codec(compact)]` field type.
#[derive(Clone, Debug, Default, PartialEq, Eq, PartialOrd, Ord, Encode, Decode, parity_scale_codec::CompactAs, parity_scale_codec::DecodeWithMemTracking, parity_scale_codec::MaxEncodedLen)]
pub struct CA(pub u32);

pub fn ca_from(v: &Value) -> CA {
	CA(u32::from_value(v))
}
pub fn ca_to(c: &CA) -> Value {
	c.0.to_value()
}

pub fn add2(a: (usize, usize), c: (usize, usize)) -> (usize, usize) {
	(a.0 + c.0, a.1 + c.1)
}

pub fn variant(v: &Value) -> (usize, &[Value]) {
	match v {
		Value::Variant(i, xs) => (*i, xs),
		_ => panic!("expected a variant, got {:?}", v),
	}
}

/// Types deriving `CompactAs`: the shape of `Compact<Self>`.
pub trait CompactAsSubject: Subject {
	fn compact_shape() -> Shape;
}

/// `Compact<T>` for a `CompactAs` type `T` (a local wrapper because of the orphan rule; it forwards
/// every method).
pub struct CompactOf<T>(pub parity_scale_codec::Compact<T>);

impl<T> Encode for CompactOf<T>
where
	parity_scale_codec::Compact<T>: Encode,
{
	fn size_hint(&self) -> usize {
		self.0.size_hint()
	}
	fn encode_to<W: Output + ?Sized>(&self, dest: &mut W) {
		self.0.encode_to(dest)
	}
	fn encode(&self) -> Vec<u8> {
		self.0.encode()
	}
	fn using_encoded<R, F: FnOnce(&[u8]) -> R>(&self, f: F) -> R {
		self.0.using_encoded(f)
	}
}
impl<T> Decode for CompactOf<T>
where
	parity_scale_codec::Compact<T>: Decode,
{
	fn decode<I: Input>(input: &mut I) -> Result<Self, Error> {
		parity_scale_codec::Compact::<T>::decode(input).map(CompactOf)
	}
	fn skip<I: Input>(input: &mut I) -> Result<(), Error> {
		parity_scale_codec::Compact::<T>::skip(input)
	}
	fn encoded_fixed_size() -> Option<usize> {
		parity_scale_codec::Compact::<T>::encoded_fixed_size()
	}
}
impl<T> parity_scale_codec::DecodeWithMemTracking for CompactOf<T> where
	parity_scale_codec::Compact<T>: parity_scale_codec::DecodeWithMemTracking
{
}
impl<T> parity_scale_codec::MaxEncodedLen for CompactOf<T>
where
	parity_scale_codec::Compact<T>: parity_scale_codec::MaxEncodedLen + Encode,
{
	fn max_encoded_len() -> usize {
		parity_scale_codec::Compact::<T>::max_encoded_len()
	}
}
impl<T: CompactAsSubject> Subject for CompactOf<T> {
	fn shape() -> Shape {
		T::compact_shape()
	}
	fn from_value(v: &Value) -> Self {
		CompactOf(parity_scale_codec::Compact(T::from_value(v)))
	}
	fn to_value(&self) -> Value {
		self.0 .0.to_value()
	}
}

pub fn list(v: &Value) -> &[Value] {
	match v {
		Value::List(xs) => xs,
		_ => panic!("expected a field list, got {:?}", v),
	}
}

impl Subject for CA {
	fn shape() -> Shape {
		Shape::Struct(vec![refmodel::Field { shape: Shape::UInt(32), skip: false }])
	}
	fn from_value(v: &Value) -> Self {
		CA(u32::from_value(&list(v)[0]))
	}
	fn to_value(&self) -> Value {
		Value::List(vec![self.0.to_value()])
	}
}
impl CompactAsSubject for CA {
	fn compact_shape() -> Shape {
		Shape::Struct(vec![refmodel::Field { shape: Shape::Compact(32), skip: false }])
	}
}

/// `CompactAs` newtypes over every width (the compact form of a 16-bit number can be longer than the number
/// plus one byte), as `Compact<_>` and as `#[codec(compact)]` fields of a struct deriving `MaxEncodedLen`.
macro_rules! ca_width {
	($name:ident, $holder:ident, $t:ty, $bits:expr) => {
		#[derive(Clone, Debug, Default, PartialEq, Eq, PartialOrd, Ord, Encode, Decode, parity_scale_codec::CompactAs, parity_scale_codec::DecodeWithMemTracking, parity_scale_codec::MaxEncodedLen)]
		pub struct $name(pub $t);
		impl Subject for $name {
			fn shape() -> Shape {
				Shape::Struct(vec![refmodel::Field { shape: Shape::UInt($bits), skip: false }])
			}
			fn from_value(v: &Value) -> Self {
				$name(<$t>::from_value(&list(v)[0]))
			}
			fn to_value(&self) -> Value {
				Value::List(vec![self.0.to_value()])
			}
		}
		impl CompactAsSubject for $name {
			fn compact_shape() -> Shape {
				Shape::Struct(vec![refmodel::Field { shape: Shape::Compact($bits), skip: false }])
			}
		}
		#[derive(Clone, Debug, PartialEq, Eq, Encode, Decode, parity_scale_codec::DecodeWithMemTracking, parity_scale_codec::MaxEncodedLen)]
		pub struct $holder {
			#[codec(compact)]
			pub c: $name,
			pub x: u8,
		}
		impl Subject for $holder {
			fn shape() -> Shape {
				Shape::Struct(vec![
					refmodel::Field { shape: <$name as CompactAsSubject>::compact_shape(), skip: false },
					refmodel::Field { shape: Shape::UInt(8), skip: false },
				])
			}
			fn from_value(v: &Value) -> Self {
				let f = list(v);
				$holder { c: <$name>::from_value(&f[0]), x: u8::from_value(&f[1]) }
			}
			fn to_value(&self) -> Value {
				Value::List(vec![self.c.to_value(), self.x.to_value()])
			}
		}
	};
}
ca_width!(Ca8, HasCa8, u8, 8);
ca_width!(Ca16, HasCa16, u16, 16);
ca_width!(Ca64, HasCa64, u64, 64);
ca_width!(Ca128, HasCa128, u128, 128);

/// A hand-written `CompactAs` type whose `decode_from` is fallible (a percentage): `Compact<Pct>` and
/// `#[codec(compact)]` fields of it must reject canonical numbers above 100 on every path
/// (decode, skip, in-place decode, bulk paths).
#[derive(Clone, Copy, Debug, Default, PartialEq, Eq, PartialOrd, Ord)]
pub struct Pct(pub u8);

impl Encode for Pct {
	fn encode_to<W: Output + ?Sized>(&self, dest: &mut W) {
		self.0.encode_to(dest)
	}
}
impl Decode for Pct {
	fn decode<I: Input>(input: &mut I) -> Result<Self, Error> {
		let x = u8::decode(input)?;
		if x <= 100 {
			Ok(Pct(x))
		} else {
			Err("Pct: above 100".into())
		}
	}
}
impl parity_scale_codec::DecodeWithMemTracking for Pct {}
impl parity_scale_codec::CompactAs for Pct {
	type As = u8;
	fn encode_as(&self) -> &u8 {
		&self.0
	}
	fn decode_from(x: u8) -> Result<Self, Error> {
		if x <= 100 {
			Ok(Pct(x))
		} else {
			Err("Pct: above 100".into())
		}
	}
}
impl From<parity_scale_codec::Compact<Pct>> for Pct {
	fn from(x: parity_scale_codec::Compact<Pct>) -> Pct {
		x.0
	}
}
impl Subject for Pct {
	fn shape() -> Shape {
		// the plain encoding is a byte with the same bound; there is no "bounded byte" shape, so the
		// plain type is not registered, only its compact form
		Shape::UInt(8)
	}
	fn from_value(v: &Value) -> Self {
		Pct(u8::from_value(v))
	}
	fn to_value(&self) -> Value {
		self.0.to_value()
	}
}
impl CompactAsSubject for Pct {
	fn compact_shape() -> Shape {
		Shape::CompactMax(8, 100)
	}
}

/// A derived struct with a `#[codec(compact)]` field of the fallible `CompactAs` type.
#[derive(Clone, Debug, PartialEq, Eq, Encode, Decode, parity_scale_codec::DecodeWithMemTracking)]
pub struct WithPct {
	pub a: u8,
	#[codec(compact)]
	pub p: Pct,
	pub b: bool,
}
impl Subject for WithPct {
	fn shape() -> Shape {
		Shape::Struct(vec![
			refmodel::Field { shape: Shape::UInt(8), skip: false },
			refmodel::Field { shape: Shape::CompactMax(8, 100), skip: false },
			refmodel::Field { shape: Shape::Bool, skip: false },
		])
	}
	fn from_value(v: &Value) -> Self {
		let f = list(v);
		WithPct { a: u8::from_value(&f[0]), p: Pct::from_value(&f[1]), b: bool::from_value(&f[2]) }
	}
	fn to_value(&self) -> Value {
		Value::List(vec![self.a.to_value(), self.p.to_value(), self.b.to_value()])
	}
}

pub fn registry() -> Vec<VT> {
	vec![
		crate::vt!(Pt, "Pt", "derived", true),
		crate::vt!(CompactOf<Ca8>, "Compact<Ca8>", "derived", true),
		crate::vt!(HasCa8, "HasCa8", "derived", true),
		crate::vt!(CompactOf<Ca16>, "Compact<Ca16>", "derived", true),
		crate::vt!(HasCa16, "HasCa16", "derived", true),
		crate::vt!(CompactOf<Ca64>, "Compact<Ca64>", "derived", true),
		crate::vt!(HasCa64, "HasCa64", "derived", true),
		crate::vt!(CompactOf<Ca128>, "Compact<Ca128>", "derived", true),
		crate::vt!(HasCa128, "HasCa128", "derived", true),
		crate::vt!(CompactOf<Pct>, "Compact<Pct>", "derived", true),
		crate::vt!(Vec<CompactOf<Pct>>, "Vec<Compact<Pct>>", "derived", true),
		crate::vt!([CompactOf<Pct>; 2], "[Compact<Pct>; 2]", "derived", false),
		crate::vt!(Option<CompactOf<Pct>>, "Option<Compact<Pct>>", "derived", false),
		crate::vt!((CompactOf<Pct>, u8), "(Compact<Pct>, u8)", "derived", false),
		crate::vt!(Box<CompactOf<Pct>>, "Box<Compact<Pct>>", "derived", false),
		crate::vt!(WithPct, "WithPct", "derived", true),
		crate::vt!(Vec<WithPct>, "Vec<WithPct>", "derived", false),
		crate::vt!([WithPct; 2], "[WithPct; 2]", "derived", false),
		crate::vt!(CA, "CA", "derived", true),
		crate::vt!(CompactOf<CA>, "Compact<CA>", "derived", true),
		crate::vt!(ZE, "ZE", "derived", true),
		crate::vt!(Vec<ZE>, "Vec<ZE>", "derived", true),
		crate::vt!([ZE; 2], "[ZE; 2]", "derived", true),
		crate::vt!(Box<ZE>, "Box<ZE>", "derived", false),
		crate::vt!(Option<(ZE, u8)>, "Option<(ZE, u8)>", "derived", false),
		// none of these may be memory-tracking (see drivers::Untracked); the probe decides
		crate::vt!(crate::drivers::Untracked, "Untracked", "untracked", false),
		crate::vt!(std::borrow::Cow<'static, crate::drivers::Untracked>, "Cow<Untracked>", "untracked", false),
		crate::vt!(Vec<crate::drivers::Untracked>, "Vec<Untracked>", "untracked", false),
		crate::vt!(Option<crate::drivers::Untracked>, "Option<Untracked>", "untracked", false),
		crate::vt!(Box<crate::drivers::Untracked>, "Box<Untracked>", "untracked", false),
		crate::vt!(std::rc::Rc<crate::drivers::Untracked>, "Rc<Untracked>", "untracked", false),
		crate::vt!(std::sync::Arc<crate::drivers::Untracked>, "Arc<Untracked>", "untracked", false),
		crate::vt!((crate::drivers::Untracked, u8), "(Untracked, u8)", "untracked", false),
		crate::vt!([crate::drivers::Untracked; 2], "[Untracked; 2]", "untracked", false),
		crate::vt!(Result<u8, crate::drivers::Untracked>, "Result<u8, Untracked>", "untracked", false),
		crate::vt!(std::collections::BTreeMap<u8, crate::drivers::Untracked>, "BTreeMap<u8, Untracked>", "untracked", false),
		crate::vt!(std::collections::BTreeSet<crate::drivers::Untracked>, "BTreeSet<Untracked>", "untracked", false),
		crate::vt!(std::collections::LinkedList<crate::drivers::Untracked>, "LinkedList<Untracked>", "untracked", false),
		crate::vt!(std::collections::VecDeque<crate::drivers::Untracked>, "VecDeque<Untracked>", "untracked", false),
		crate::vt!(std::ops::Range<crate::drivers::Untracked>, "Range<Untracked>", "untracked", false),
		// maps and sets with large elements: the node-count estimate matters
		crate::vt!(std::collections::BTreeSet<[u8; 100]>, "BTreeSet<[u8; 100]>", "bigtree", false),
		crate::vt!(std::collections::BTreeMap<u16, [u8; 200]>, "BTreeMap<u16, [u8; 200]>", "bigtree", false),
		crate::vt!(std::collections::BTreeMap<u8, u128>, "BTreeMap<u8, u128> (sizes)", "bigtree", false),
	]
}

//! C08 — decoding is independent of the Input implementation.

use crate::{checks::c03, common::*, wrapm};
use refmodel::{domain, ref_enc, Shape, Value};
use serde_json::{json, Value as Json};
use std::io::Cursor;
use subjects::{
	drivers::{run_stack, Cmd, Wrap},
	inputs::{ChunkReader, NoLen, ReadChoice},
	vt::{DecRes, VT},
};

fn same(shape: &Shape, base: &DecRes, other: &DecRes, what: &str) -> Result<(), String> {
	match (base, other) {
		(Ok(b), Ok(o)) => {
			if shape.normalize(&b.value) != shape.normalize(&o.value) {
				return Err(format!("{}: value {} differs from the slice decode {}", what, value_short(&o.value), value_short(&b.value)));
			}
			if b.consumed != o.consumed {
				return Err(format!("{}: consumed {} bytes, the slice decode {}", what, o.consumed, b.consumed));
			}
			Ok(())
		},
		(Err(_), Err(_)) => Ok(()),
		(Ok(_), Err(e)) => Err(format!("{}: fails ({}) where the slice decode succeeds", what, e)),
		(Err(e), Ok(o)) => Err(format!("{}: succeeds ({}) where the slice decode fails ({})", what, value_short(&o.value), e)),
	}
}

fn via_stack_slice(vt: &VT, x: &[u8], stack: &[Wrap]) -> Result<DecRes, String> {
	let mut s: &[u8] = x;
	let mut res: Option<Result<refmodel::Value, String>> = None;
	guarded(|| {
		run_stack(&mut s, stack, &mut |inp| {
			let r = (vt.decode_dyn)(inp);
			let ok = r.is_ok();
			res = Some(r);
			ok
		})
	})
	.map_err(|p| format!("decode through {:?} panicked: {}", stack, p))?;
	let consumed = x.len() - s.len();
	Ok(match res {
		Some(Ok(v)) => Ok(subjects::vt::DecOk { value: v, consumed }),
		Some(Err(e)) => Err(e),
		None => Err("wrapper failed before reaching the decoder".into()),
	})
}

fn via_stack_nolen(vt: &VT, x: &[u8], stack: &[Wrap]) -> Result<DecRes, String> {
	let mut n = NoLen::new(x);
	let mut res: Option<Result<refmodel::Value, String>> = None;
	guarded(|| {
		run_stack(&mut n, stack, &mut |inp| {
			let r = (vt.decode_dyn)(inp);
			let ok = r.is_ok();
			res = Some(r);
			ok
		})
	})
	.map_err(|p| format!("decode through {:?} over an unknown-length input panicked: {}", stack, p))?;
	let consumed = n.pos;
	Ok(match res {
		Some(Ok(v)) => Ok(subjects::vt::DecOk { value: v, consumed }),
		Some(Err(e)) => Err(e),
		None => Err("wrapper failed before reaching the decoder".into()),
	})
}

const MAXD: Wrap = Wrap::Depth(u32::MAX);
const MAXM: Wrap = Wrap::Mem(usize::MAX);

/// All base inputs and the depth-1 wrapper stacks.
pub fn light(vt: &VT, shape: &Shape, x: &[u8]) -> Result<(&'static str, bool), String> {
	compare(vt, shape, x, false)
}
/// All base inputs and every wrapper stack up to depth 3 (over slice and unknown-length bases).
pub fn full(vt: &VT, shape: &Shape, x: &[u8]) -> Result<(&'static str, bool), String> {
	compare(vt, shape, x, true)
}

fn compare(vt: &VT, shape: &Shape, x: &[u8], all_stacks: bool) -> Result<(&'static str, bool), String> {
	let base = guarded(|| (vt.decode)(x)).map_err(|p| format!("slice decode panicked: {}", p))?;
	// unknown remaining length
	{
		let mut n = NoLen::new(x);
		let r = guarded(|| (vt.decode_dyn)(&mut n)).map_err(|p| format!("unknown-length decode panicked: {}", p))?;
		let r = r.map(|v| subjects::vt::DecOk { value: v, consumed: n.pos });
		same(shape, &base, &r, "unknown-length input")?;
	}
	// IoReader over a cursor
	{
		let mut c = Cursor::new(x);
		let r = guarded(|| (vt.decode_io)(&mut c)).map_err(|p| format!("IoReader decode panicked: {}", p))?;
		let r = r.map(|v| subjects::vt::DecOk { value: v, consumed: c.position() as usize });
		same(shape, &base, &r, "IoReader<Cursor>")?;
	}
	// shared byte buffer
	{
		let r = guarded(|| (vt.decode_from_bytes)(x.to_vec())).map_err(|p| format!("decode_from_bytes panicked: {}", p))?;
		same(shape, &base, &r, "decode_from_bytes")?;
	}
	let stacks: Vec<Vec<Wrap>> = if all_stacks { wrapm::stacks_over(&[Wrap::Counted, MAXD, MAXM]) } else { vec![vec![Wrap::Counted], vec![MAXD], vec![MAXM]] };
	for st in &stacks {
		let r = via_stack_slice(vt, x, st)?;
		same(shape, &base, &r, &format!("wrapper stack {:?} over a slice", st))?;
		if all_stacks {
			let r = via_stack_nolen(vt, x, st)?;
			same(shape, &base, &r, &format!("wrapper stack {:?} over an unknown-length input", st))?;
		}
	}
	let class = if base.is_ok() { "ok" } else { "err" };
	Ok((class, c03::open_node(vt, shape, x)))
}

/// Deviation-bounded exploration of short-read schedules (`io::Read` whose every call is a choice).
pub fn chunks(vt: &VT, shape: &Shape, x: &[u8], bound: usize) -> Result<u64, String> {
	let base = guarded(|| (vt.decode)(x)).map_err(|p| format!("slice decode panicked: {}", p))?;
	let run = |sched: &[(usize, ReadChoice)]| -> Result<(DecRes, usize), String> {
		let mut cr = ChunkReader::new(x, sched);
		let r = guarded(|| (vt.decode_io)(&mut cr)).map_err(|p| format!("decode under read schedule {:?} panicked: {}", sched, p))?;
		let calls = cr.calls;
		Ok((r.map(|v| subjects::vt::DecOk { value: v, consumed: cr.pos }), calls))
	};
	let (r0, calls) = run(&[])?;
	same(shape, &base, &r0, "short-read reader (default schedule)")?;
	let mut runs = 1;
	let choices = [ReadChoice::One, ReadChoice::Half, ReadChoice::Interrupted];
	let points = calls.min(20);
	if bound >= 1 {
		for i in 0..points {
			for c in choices {
				let (r, _) = run(&[(i, c)])?;
				runs += 1;
				same(shape, &base, &r, &format!("short-read reader, schedule [{}:{:?}]", i, c))?;
			}
		}
	}
	if bound >= 2 {
		for i in 0..points.min(8) {
			for j in i + 1..(points + 2).min(10) {
				for c in choices {
					for d in choices {
						let (r, _) = run(&[(i, c), (j, d)])?;
						runs += 1;
						same(shape, &base, &r, &format!("short-read reader, schedule [{}:{:?}, {}:{:?}]", i, c, j, d))?;
					}
				}
			}
		}
	}
	Ok(runs)
}

fn viol(acc: &mut Acc, sub: &str, vt: &VT, x: &[u8], detail: String) {
	acc.violate(Violation {
		property: "C08".into(),
		sub: sub.into(),
		key: format!("C08|{}|{}", vt.name, sub),
		detail,
		case: json!({"sub": sub, "type": vt.name, "bytes": hex_full(x)}),
	});
}

pub fn run(tier: Tier, reg: &[VT]) -> Report {
	let mut rep = Report::new("C08", tier);
	let t = tier.thorough();
	let all: Vec<&VT> = reg.iter().collect();
	let core: Vec<&VT> = reg.iter().filter(|v| v.core).collect();

	// (1) byte strings
	let acc = c03::explore_all("C08", "C08.light", light, &all, &c03::ALL, if t { 2 } else { 1 }, u64::MAX, false);
	rep.part("all types, all bytes", &format!("every byte string of length <= {} x every registry type x {{unknown-length, IoReader, decode_from_bytes, Counted, depth-limit(MAX), mem-limit(MAX)}} vs the slice decode", if t { 2 } else { 1 }), acc);
	let (d, cap) = if t { (5, 200_000u64) } else { (3, 4_000u64) };
	let acc = c03::explore_all("C08", "C08.light", light, &all, &c03::B, d, cap, true);
	if acc.extra.get("types_capped").copied().unwrap_or(0) > 0 {
		rep.caps.push(format!("all-types deep exploration: run cap {} per type hit for {} types", cap, acc.extra["types_capped"]));
	}
	rep.part("all types, reduced alphabet", &format!("lazy DFS over the 20-byte alphabet to depth {} (cap {} per type), same input kinds", d, cap), acc);
	let acc = c03::explore_all("C08", "C08.full", full, &core, &c03::ALL, if t { 2 } else { 1 }, u64::MAX, false);
	rep.part("core types, full stack product (all bytes)", "all 39 wrapper stacks of depth 1..3 over {Counted, depth-limit(MAX), mem-limit(MAX)}, over slice and unknown-length bases", acc);
	let (d2, cap2) = if t { (5, 100_000u64) } else { (4, 3_000u64) };
	let acc = c03::explore_all("C08", "C08.full", full, &core, &c03::B, d2, cap2, true);
	rep.part("core types, full stack product (reduced alphabet)", &format!("depth {} cap {}", d2, cap2), acc);

	// (2) valid encodings (+ suffix) and their mutations
	let b = domain::Bound::small();
	let bound = if t { 2 } else { 1 };
	let acc = par(reg, |vt, acc| {
		heartbeat(vt.name);
		let shape = (vt.shape)();
		if c03::zw_container(&shape) {
			return;
		}
		let vals: Vec<Value> = if t { domain::values(&shape, &b) } else { domain::reduced(&shape) };
		for v in vals.iter().take(if t { 60 } else { 6 }) {
			let Ok(mut enc) = ref_enc(&shape, v) else { continue };
			if enc.len() > 4096 {
				continue;
			}
			enc.extend_from_slice(&[0x01, 0xfe]);
			acc.evaluations += 1;
			acc.transitions += 10;
			match if vt.core { full(vt, &shape, &enc) } else { light(vt, &shape, &enc) } {
				Ok((class, _)) => {
					acc.states += 1;
					acc.traces += 1;
					acc.nontrivial += 1;
					acc.outcome(class);
				},
				Err(d) => viol(acc, if vt.core { "C08.full" } else { "C08.light" }, vt, &enc, d),
			}
			// short-read schedules on the valid encoding and on a truncated one
			for input in [&enc[..], &enc[..enc.len().saturating_sub(3)]] {
				acc.evaluations += 1;
				match chunks(vt, &shape, input, bound) {
					Ok(runs) => {
						acc.states += runs;
						acc.traces += runs;
						acc.transitions += runs;
						acc.nontrivial += 1;
						acc.add("read_schedules", runs);
					},
					Err(d) => viol(acc, &format!("C08.chunks{}", bound), vt, input, d),
				}
			}
			if vt.core {
				c03::mutations(&enc[..enc.len() - 2], false, &mut |m| {
					if m.len() > 64 {
						return;
					}
					acc.evaluations += 1;
					acc.transitions += 10;
					match light(vt, &shape, m) {
						Ok((class, _)) => {
							acc.states += 1;
							acc.traces += 1;
							acc.nontrivial += 1;
							acc.outcome(class);
						},
						Err(d) => viol(acc, "C08.light", vt, m, d),
					}
				});
			}
		}
	});
	// (2b) sequences spanning several 16 KiB preallocation chunks through every input kind
	let bigs: Vec<&VT> = reg
		.iter()
		.filter(|v| (t || v.core || v.class == "leaf" || v.class == "twin") && matches!((v.shape)(), Shape::Seq(k, ref e) if !e.zero_width() && !matches!(k, refmodel::SeqKind::Set | refmodel::SeqKind::List)) || matches!((v.shape)(), Shape::Str | Shape::Bytes | Shape::Bits { .. }))
		.collect();
	let acc_big = par(&bigs, |vt, acc| {
		heartbeat(&format!("{} big", vt.name));
		let shape = (vt.shape)();
		let mut inputs: Vec<Vec<u8>> = vec![];
		match &shape {
			Shape::Seq(_, e) => {
				let unit = ref_enc(e, &domain::fill(e, 0)).map(|x| x.len().max(1)).unwrap_or(1);
				for n in [16384 / unit + 1, 2 * 16384 / unit, 3 * 16384 / unit + 5] {
					if let Ok(x) = ref_enc(&shape, &Value::List((0..n).map(|i| domain::fill(e, i)).collect())) {
						inputs.push(x);
					}
				}
			},
			Shape::Str => inputs.push(ref_enc(&shape, &Value::Str("q".repeat(40_000))).unwrap()),
			Shape::Bytes => inputs.push(ref_enc(&shape, &Value::Bytes((0..40_000u32).map(|i| i as u8).collect())).unwrap()),
			Shape::Bits { .. } => inputs.push(ref_enc(&shape, &Value::Bits((0..300_000).map(|i| i % 3 == 0).collect())).unwrap()),
			_ => {},
		}
		for mut x in inputs {
			x.extend_from_slice(&[0x01, 0xfe]);
			for input in [&x[..], &x[..x.len() - 7]] {
				acc.evaluations += 1;
				acc.transitions += 8;
				match light(vt, &shape, input) {
					Ok((class, _)) => {
						acc.states += 1;
						acc.traces += 1;
						acc.nontrivial += 1;
						acc.outcome(class);
					},
					Err(d) => viol(acc, "C08.light", vt, input, d),
				}
				match chunks(vt, &shape, input, 0).and_then(|_| {
					// a few short-read schedules on the long input
					for sched in [[(0usize, ReadChoice::One)], [(1, ReadChoice::Half)], [(2, ReadChoice::Interrupted)], [(3, ReadChoice::One)]] {
						let mut cr = ChunkReader::new(input, &sched);
						let r = guarded(|| (vt.decode_io)(&mut cr)).map_err(|p| format!("decode under read schedule {:?} panicked: {}", sched, p))?;
						let base = (vt.decode)(input);
						let r = r.map(|v| subjects::vt::DecOk { value: v, consumed: cr.pos });
						same(&shape, &base, &r, &format!("short-read reader, schedule {:?}", sched))?;
					}
					Ok(5u64)
				}) {
					Ok(runs) => {
						acc.states += runs;
						acc.traces += runs;
						acc.transitions += runs;
					},
					Err(d) => viol(acc, "C08.chunks1", vt, input, d),
				}
			}
		}
	});
	rep.part("multi-chunk sequences", "vectors / deques / heaps / strings / byte buffers / bit sequences spanning 1..3 preallocation chunks (+ a truncated variant) through every input kind and a few short-read schedules", acc_big);

	rep.part(
		"valid encodings, mutations, short-read schedules",
		&format!("every registry type x boundary values (+2 trailing bytes): all input kinds; IoReader over a reader whose every read call is a choice point (full / 1 byte / half / Interrupted) with <= {} deviations; single-byte deviations of the encodings for core types", bound),
		acc,
	);

	// (3) the wrapper stacks as state machines with non-binding limits
	let stacks = wrapm::stacks_over(&[Wrap::Counted, MAXD, MAXM]);
	let alphabet = [Cmd::Descend, Cmd::Ascend, Cmd::Alloc(0), Cmd::Alloc(1), Cmd::Alloc(usize::MAX / 4), Cmd::Read(0), Cmd::Read(2), Cmd::ReadByte, Cmd::Len];
	let depth = if t { 6 } else { 5 };
	let acc = wrapm::explore(&stacks, &alphabet, depth, "C08", "C08.machine");
	rep.part(
		"wrapper stacks as state machines",
		&format!("every program of <= {} Input-trait calls {{descend, ascend (balanced), alloc(0/1/big), read(0/2), read_byte, remaining_len}} through each of the 39 stacks: observations and the calls reaching the wrapped input equal the reference machines'", depth),
		acc,
	);

	rep.rule = "case = (type, byte string, input stack [, read schedule]); the slice decode is the reference outcome, every other input kind / wrapper stack must give the same Ok/Err and on Ok the same value and consumption; \
		read schedules are explored deviation-bounded (0, 1, 2 deviations from the all-full default). non-trivial = non-empty input"
		.into();
	rep.bounds = json!({"types": reg.len(), "core_types": core.len(), "stacks": 39, "read_deviation_bound": bound, "machine_depth": depth});
	rep.assumptions = vec!["consumption after an error is not compared (the property does not state it)".into()];
	rep
}

pub fn replay(reg: &[VT], case: &Json) -> Option<String> {
	let sub = case["sub"].as_str().unwrap();
	if sub == "C08.machine" {
		return wrapm::replay(case);
	}
	let vt = find_vt(reg, case["type"].as_str().unwrap());
	let shape = (vt.shape)();
	let x = unhex(case["bytes"].as_str().unwrap());
	match sub {
		"C08.light" => light(vt, &shape, &x).err(),
		"C08.full" => full(vt, &shape, &x).err(),
		"C08.chunks1" => chunks(vt, &shape, &x, 1).err(),
		"C08.chunks2" => chunks(vt, &shape, &x, 2).err(),
		_ => None,
	}
}

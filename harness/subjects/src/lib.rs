pub fn y(){}

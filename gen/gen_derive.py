#!/usr/bin/env python3
"""Generates the derive corpus (DESIGN.md E5): type definitions over the derive attribute grammar
up to a size bound, each with its reference layout (`Shape`) computed from the *definition*, never
from the derive code. Valid programs are compiled into the harness (`regd*` crates).

  gen_derive.py <harness-root>          write harness/regd{0..N-1}
  gen_derive.py --json <file>           write descriptors only

Deterministic; no third-party modules."""
import sys, os, json, itertools

NCRATES = 6

# ---------------------------------------------------------------------------------------------
# field options: type, attribute, reference shape, conversion templates
# ---------------------------------------------------------------------------------------------
class FO:
    def __init__(s, key, ty, attr="", shape=None, skip=False, mel=True, generic=False, frm=None, to=None, zst=False):
        s.key=key; s.ty=ty; s.attr=attr; s.shape=shape or f"<{ty}>::shape()"; s.skip=skip; s.mel=mel
        s.generic=generic; s.frm=frm or "<{ty}>::from_value({v})"; s.to=to or "({f}).to_value()"; s.zst=zst

FOS = [
    FO("u8","u8"),
    FO("u32","u32"),
    FO("u16","u16"), FO("u64","u64"), FO("u128","u128"),
    FO("cu64","u64","#[codec(compact)]","Shape::Compact(64)"),
    FO("cu32","u32","#[codec(compact)]","Shape::Compact(32)"),
    FO("cu128","u128","#[codec(compact)]","Shape::Compact(128)"),
    FO("vec","Vec<u8>",mel=False),
    FO("opt","Option<u16>"),
    FO("gen","T",generic=True),
    FO("ph","PhantomData<T>",shape="Shape::Phantom",generic=True,zst=True),
    FO("sk64","u64","#[codec(skip)]",skip=True),
    FO("skvec","Vec<u8>","#[codec(skip)]",skip=True),
    FO("as16","u16",'#[codec(encoded_as = "<u16 as HasCompact>::Type")]',"Shape::Compact(16)"),
    FO("aspt","Pt",'#[codec(encoded_as = "PtRev")]',"ptrev_shape()",frm="ptrev_from({v})",to="ptrev_to(&{f})"),
    FO("ca","CA","#[codec(compact)]","Shape::Compact(32)",frm="ca_from({v})",to="ca_to(&{f})"),
    FO("cgen","T","#[codec(compact)]","Shape::Compact(16)",generic=True,mel=False),
    FO("ze","ZE"),   # zero-sized in memory, one index byte on the wire   # T = u16 only
]
F = {f.key: f for f in FOS}

class Field:
    def __init__(s, fo, name): s.fo=fo; s.name=name

class Def:
    """A struct or enum definition."""
    def __init__(s, kind, name):
        s.kind=kind; s.name=name; s.fields=[]; s.shape_kind=None; s.variants=[]; s.transparent=False
        s.generic=False; s.tparam="u16"; s.repr=None; s.compact_as=False; s.tag=""

def struct(name, shape_kind, keys, transparent=False, tparam="u16", tag="struct"):
    d=Def("struct",name); d.shape_kind=shape_kind; d.transparent=transparent; d.tparam=tparam; d.tag=tag
    d.fields=[Field(F[k], ("f%d"%i) if shape_kind=="named" else str(i)) for i,k in enumerate(keys)]
    d.generic=any(f.fo.generic for f in d.fields)
    return d

class Var:
    def __init__(s, name, shape_kind, keys, src):
        s.name=name; s.shape_kind=shape_kind; s.src=src
        s.fields=[Field(F[k], ("f%d"%i) if shape_kind=="named" else "x%d"%i) for i,k in enumerate(keys)]

def enum(name, vars_, tag="enum"):
    d=Def("enum",name); d.variants=vars_; d.tag=tag
    d.generic=any(f.fo.generic for v in vars_ for f in v.fields)
    return d

# ---- index rule (reference model side, mirrored in refmodel::side) -----------------------------
def indices(vars_):
    pos=0; out=[]
    for v in vars_:
        k=v.src[0]
        if k=="skip": out.append(None); continue
        if k=="implicit": i=pos
        elif k=="attr": i=v.src[1]
        elif k=="discr": i=v.src[1]
        elif k=="both": i=v.src[1]
        out.append(i); pos+=1
    return out

def rust_discriminants(vars_):
    """What rustc assigns; returns None if rustc itself would reject (duplicate / overflow)."""
    cur=-1; seen=set(); out=[]
    for v in vars_:
        k=v.src[0]
        if k=="discr": cur=v.src[1]
        elif k=="both": cur=v.src[2]
        elif k=="skipd": cur=v.src[1]
        else: cur=cur+1
        if cur in seen or cur>65535: return None
        seen.add(cur); out.append(cur)
    return out

def enum_valid(vars_):
    idx=[i for i in indices(vars_) if i is not None]
    return len(idx)<=256 and all(i<=255 for i in idx) and len(set(idx))==len(idx)

# ---------------------------------------------------------------------------------------------
# rendering
# ---------------------------------------------------------------------------------------------
def ty_of(fo, tparam): return fo.ty if not fo.generic else fo.ty
def conc(ty, tparam): return ty.replace("PhantomData<T>", f"PhantomData<{tparam}>") if ty!="T" else tparam

def field_decl(f, named):
    a=(f.fo.attr+" ") if f.fo.attr else ""
    return f"{a}pub {f.name}: {f.fo.ty}" if named else f"{a}pub {f.fo.ty}"

def mel_ok(fields): return all(f.fo.mel or f.fo.skip for f in fields)

def render(d, tp_override=None):
    """Definition + Subject impl + registry lines. With tp_override: only the Subject impl and the registry
    line of a second instantiation of a generic definition (state shared between monomorphisations --
    function-local statics, caches -- needs two of them in one process, the smaller registered first)."""
    tp=tp_override or d.tparam
    only_impl=tp_override is not None
    gen="<T>" if d.generic else ""
    conc_name=f"{d.name}<{tp}>" if d.generic else d.name
    all_fields = d.fields if d.kind=="struct" else [f for v in d.variants for f in v.fields]
    mel = mel_ok(all_fields) and (not d.generic or tp in ("u16","u8","u32"))
    derives=["Encode","Decode","DecodeWithMemTracking","Clone","Debug","PartialEq"]
    if mel: derives.append("MaxEncodedLen")
    if d.compact_as: derives.append("CompactAs")
    out=[]
    out.append(f"#[derive({', '.join(derives)})]")
    if d.transparent: out.append("#[repr(transparent)]")
    if d.repr: out.append(f"#[repr({d.repr})]")
    if only_impl: out=[]
    elif d.kind=="struct":
        if d.shape_kind=="unit": out.append(f"pub struct {d.name};")
        elif d.shape_kind=="tuple": out.append(f"pub struct {d.name}{gen}({', '.join(field_decl(f,False) for f in d.fields)});")
        else: out.append(f"pub struct {d.name}{gen} {{ {', '.join(field_decl(f,True) for f in d.fields)} }}")
    else:
        vs=[]
        for v in d.variants:
            a=""
            k=v.src[0]
            if k=="skip": a="#[codec(skip)] "
            elif k=="attr": a=f"#[codec(index = {v.src[1]})] "
            elif k=="both": a=f"#[codec(index = {v.src[1]})] "
            body=v.name
            if v.shape_kind=="tuple": body+="("+", ".join(((f.fo.attr+" ") if f.fo.attr else "")+f.fo.ty for f in v.fields)+")"
            elif v.shape_kind=="named": body+=" { "+", ".join(((f.fo.attr+" ") if f.fo.attr else "")+f"{f.name}: {f.fo.ty}" for f in v.fields)+" }"
            if k=="discr": body+=f" = {v.src[1]}"
            elif k=="both": body+=f" = {v.src[2]}"
            vs.append(a+body)
        out.append(f"pub enum {d.name}{gen} {{ {', '.join(vs)} }}")
    # Subject impl
    def fshape(f):
        sh=f.fo.shape.replace('<T>','<'+tp+'>') if f.fo.key!='gen' else '<'+tp+'>::shape()'
        if f.fo.key=="cgen" and tp=="u8": sh=sh.replace("Compact(16)","Compact(8)")
        return f"Field {{ shape: {sh}, skip: {str(f.fo.skip).lower()} }}"
    def ffrom(f, v):
        if f.fo.key=="gen": return f"<{tp}>::from_value({v})"
        if f.fo.key=="ph": return "PhantomData"
        if f.fo.key=="cgen": return f"<{tp}>::from_value({v})"
        return f.fo.frm.format(ty=f.fo.ty, v=v)
    def fto(f, e):
        if f.fo.key=="ph": return "Value::Unit"
        return f.fo.to.format(f=e)
    out.append(f"impl Subject for {conc_name} {{")
    if d.kind=="struct":
        zw = all(f.fo.skip or f.fo.zst for f in d.fields)
        if zw: out.append("\tconst ZW: bool = true;")
        out.append(f"\tfn shape() -> Shape {{ Shape::Struct(vec![{', '.join(fshape(f) for f in d.fields)}]) }}")
        if d.shape_kind=="unit":
            out.append(f"\tfn from_value(_: &Value) -> Self {{ {d.name} }}")
            out.append("\tfn to_value(&self) -> Value { Value::List(vec![]) }")
            out.append(f"\tfn zw_instance() -> Self {{ {d.name} }}")
        else:
            args=[ffrom(f, f"&xs[{i}]") for i,f in enumerate(d.fields)]
            if d.shape_kind=="tuple": cons=f"{d.name}({', '.join(args)})"
            else: cons=f"{d.name} {{ {', '.join(f'{f.name}: {a}' for f,a in zip(d.fields,args))} }}"
            out.append(f"\tfn from_value(v: &Value) -> Self {{ let xs = list(v); {cons} }}")
            tos=[fto(f, f"self.{f.name}") for f in d.fields]
            out.append(f"\tfn to_value(&self) -> Value {{ Value::List(vec![{', '.join(tos)}]) }}")
            if zw:
                dargs=["PhantomData" if f.fo.key=="ph" else "Default::default()" for f in d.fields]
                if d.shape_kind=="tuple": out.append(f"\tfn zw_instance() -> Self {{ {d.name}({', '.join(dargs)}) }}")
                else: out.append(f"\tfn zw_instance() -> Self {{ {d.name} {{ {', '.join(f'{f.name}: {a}' for f,a in zip(d.fields,dargs))} }} }}")
            pay=" ; ".join(f"p = add2(p, {('self.'+f.name)}.heap_payload())" for f in d.fields if f.fo.key in ("vec","gen","opt") and not f.fo.skip)
            if pay: out.append(f"\tfn heap_payload(&self) -> (usize, usize) {{ let mut p = (0, 0); {pay}; p }}")
    else:
        idx=indices(d.variants)
        vsh=[]
        for v,i in zip(d.variants,idx):
            vsh.append(f"Variant {{ index: {('Some(%d)'%i) if i is not None else 'None'}, fields: vec![{', '.join(fshape(f) for f in v.fields)}] }}")
        out.append(f"\tfn shape() -> Shape {{ Shape::Enum(vec![{', '.join(vsh)}]) }}")
        arms=[]; tarms=[]
        for n,v in enumerate(d.variants):
            args=[ffrom(f, f"&xs[{i}]") for i,f in enumerate(v.fields)]
            if v.shape_kind=="unit":
                arms.append(f"{n} => {d.name}::{v.name}"); tarms.append(f"{d.name}::{v.name} => Value::Variant({n}, vec![])")
            elif v.shape_kind=="tuple":
                arms.append(f"{n} => {d.name}::{v.name}({', '.join(args)})")
                binds=", ".join(f.name for f in v.fields)
                tarms.append(f"{d.name}::{v.name}({binds}) => Value::Variant({n}, vec![{', '.join(fto(f,'*'+f.name) if False else fto(f,f.name) for f in v.fields)}])")
            else:
                arms.append(f"{n} => {d.name}::{v.name} {{ {', '.join(f'{f.name}: {a}' for f,a in zip(v.fields,args))} }}")
                binds=", ".join(f.name for f in v.fields)
                tarms.append(f"{d.name}::{v.name} {{ {binds} }} => Value::Variant({n}, vec![{', '.join(fto(f,f.name) for f in v.fields)}])")
        out.append(f"\tfn from_value(v: &Value) -> Self {{ let (i, xs) = variant(v); let _ = xs; match i {{ {', '.join(arms)}, _ => panic!(\"bad variant\") }} }}")
        out.append(f"\t#[allow(unused_variables)] fn to_value(&self) -> Value {{ match self {{ {', '.join(tarms)} }} }}")
    out.append("}")
    extra_regs=[]
    if d.compact_as:
        def cshape(f):
            if f.fo.skip: return fshape(f)
            bits={"u8":8,"u16":16,"u32":32,"u64":64,"u128":128}[f.fo.ty]
            return f"Field {{ shape: Shape::Compact({bits}), skip: false }}"
        out.append(f"impl CompactAsSubject for {conc_name} {{ fn compact_shape() -> Shape {{ Shape::Struct(vec![{', '.join(cshape(f) for f in d.fields)}]) }} }}")
        extra_regs.append(f'subjects::vt!(CompactOf<{conc_name}>, "Compact<{conc_name}>", "derived", false)')
    if d.tag in ("core","transparent","structgen") or (d.kind=="struct" and all(f.fo.skip or f.fo.zst for f in d.fields) and d.fields):
        for w in ("Vec<{}>","Box<{}>","Option<{}>","[{}; 2]"):
            t=w.format(conc_name)
            extra_regs.append(f'subjects::vt!({t}, "{t}", "derived", false)')
    reg=f'subjects::vt!({conc_name}, "{conc_name}", "derived", {str(d.tag in CORE_TAGS).lower()})'
    if only_impl: return "\n".join(out), [reg]
    if d.generic and tp=="u16":
        t2, r2 = render(d, "u8")
        return "\n".join(out)+"\n"+t2, r2+[reg]+extra_regs
    return "\n".join(out), [reg]+extra_regs

CORE_TAGS={"core"}

# ---------------------------------------------------------------------------------------------
# corpus enumeration
# ---------------------------------------------------------------------------------------------
defs=[]
cnt=[0]
def nm(prefix):
    cnt[0]+=1; return f"{prefix}{cnt[0]}"

KEYS=[f.key for f in FOS if f.key not in ("u16","u64","u128")]
NONGEN=[k for k in KEYS if not F[k].generic]

# unit struct
defs.append(struct(nm("S"),"unit",[],tag="core"))
# one-field structs: every option x tuple/named
for k in KEYS:
    for sk in ("tuple","named"):
        defs.append(struct(nm("S"),sk,[k],tag="core" if k in ("u8","cu32","sk64","vec") and sk=="tuple" else "struct1"))
# two-field structs: every ordered pair x tuple/named
for a in KEYS:
    for b in KEYS:
        if a=="cgen" and b=="gen" or a=="gen" and b=="cgen": continue  # T cannot be both compact(u16) and plain with another type
        for sk in ("tuple","named"):
            if sk=="named" and (a,b) not in [(x,y) for x in KEYS for y in KEYS if (KEYS.index(x)+KEYS.index(y))%2==0]: continue
            defs.append(struct(nm("S"),sk,[a,b],tag="struct2"))
# three-field structs: selected triples exercising order, skip in each position, single-non-skipped forwarding
TRI=[("u8","cu32","vec"),("sk64","u8","skvec"),("sk64","sk64","cu64"),("cu64","sk64","sk64"),("u8","sk64","u32"),
     ("vec","opt","as16"),("aspt","u8","ca"),("gen","ph","u8"),("ph","cgen","sk64"),("cu128","cu32","cu64"),
     ("skvec","aspt","skvec"),("opt","opt","opt"),("u32","u8","u32"),("ca","ca","u8"),("as16","sk64","aspt"),
     ("ph","ph","u8"),("gen","gen","gen"),("vec","vec","u8"),("sk64","skvec","sk64")]
for t in TRI:
    for sk in ("tuple","named"):
        defs.append(struct(nm("S"),sk,list(t),tag="struct3"))
# generic parameter instantiated with a heap type as well
for keys in (["gen"],["gen","u8"],["u8","gen"],["ph","gen"],["gen","sk64"]):
    defs.append(struct(nm("S"),"tuple",keys,tparam="Vec<u8>",tag="structgen"))
    defs.append(struct(nm("S"),"named",keys,tparam="String",tag="structgen"))
# repr(transparent): single non-ZST field, no attributes (the decode_into path)
for keys in (["u32"],["vec"],["opt"],["u8","ph"],["ph","u32"],["gen"],["gen","ph"]):
    for sk in ("tuple","named"):
        defs.append(struct(nm("T"),sk,keys,transparent=True,tag="transparent"))
# repr(transparent) whose single non-ZST field carries an attribute: the in-place decode path must
# not be taken (or must honour the attribute); decoded through Box / arrays by the composites
for keys in (["cu32"],["cu64","ph"],["ph","cu128"],["sk64"],["sk64","ph"],["skvec"],["as16"],["aspt"],["ca"],["cgen"],["ph","as16"],["u32","ze"],["ze","vec"],["ze"],["ze","ze"],["ph","ze","u8"]):
    for sk in ("tuple","named"):
        defs.append(struct(nm("T"),sk,keys,transparent=True,tag="transparent"))
# CompactAs derive on single-non-skipped-field structs
for keys,sk in ((["u32"],"tuple"),(["u8"],"named"),(["sk64","u64"],"tuple"),(["u16","skvec"],"named"),(["u128"],"tuple")):
    d=struct(nm("A"),sk,keys,tag="compactas"); d.compact_as=True; defs.append(d)

# enums
SHAPES=[("unit",[]),("tuple",["u8"]),("tuple",["cu32"]),("tuple",["vec"]),("tuple",["gen"]),("named",["u8","cu32"]),("named",["sk64","u32"])]
NS=[0,1,2,7,254,255]
SRCS=[("implicit",)]+[("attr",n) for n in NS]+[("discr",n) for n in NS]+[("both",3,1),("both",0,9)]+[("skip",)]

def mk_enum(specs, tag):
    vars_=[Var("V%d"%i, sk, keys, src) for i,(sk,keys,src) in enumerate(specs)]
    if not enum_valid(vars_): return None
    if rust_discriminants(vars_) is None: return None
    d=enum(nm("E"),vars_,tag)
    has_discr=any(v.src[0] in ("discr","both") for v in vars_)
    non_unit=any(v.shape_kind!="unit" for v in vars_)
    if has_discr and non_unit: d.repr="u16"
    return d

# one-variant enums: every shape x every index source (includes the all-variants-skipped enum)
for (sk,keys) in SHAPES:
    for src in SRCS:
        d=mk_enum([(sk,keys,src)],"core" if (sk,src) in (("unit",("skip",)),("unit",("implicit",)),("tuple",("attr",255))) else "enum1")
        if d: defs.append(d)
# two-variant enums: reduced shapes x reduced sources, all valid combinations
SH2=[("unit",[]),("tuple",["u8"]),("named",["u8","cu32"])]
SR2=[("implicit",),("attr",0),("attr",1),("attr",255),("discr",0),("discr",1),("discr",255),("both",1,0),("skip",)]
for (s1,k1) in SH2:
    for (s2,k2) in SH2:
        for a in SR2:
            for b in SR2:
                d=mk_enum([(s1,k1,a),(s2,k2,b)],"enum2")
                if d: defs.append(d)
# three-variant enums: index-source patterns over unit and mixed shapes
SR3=[("implicit",),("attr",1),("discr",2),("skip",)]
for pat in itertools.product(SR3,repeat=3):
    for shapes in ([("unit",[])]*3, [("tuple",["u8"]),("unit",[]),("named",["sk64","u32"])]):
        d=mk_enum([(sk,keys,src) for (sk,keys),src in zip(shapes,pat)],"enum3")
        if d: defs.append(d)
# variants with the same field types that differ only in how a field is encoded
for (a,b) in ((["u32"],["cu32"]),(["cu32"],["u32"]),(["u64"],["cu64"]),(["cu128"],["u128"]),(["u16"],["as16"]),(["as16"],["u16"])):
    for sk in ("tuple","named"):
        d=mk_enum([(sk,a,("implicit",)),(sk,b,("implicit",))],"enumpair"); defs.append(d)
        d=mk_enum([("unit",[],("implicit",)),(sk,a,("implicit",)),(sk,b,("attr",9)),(sk,a,("implicit",))],"enumpair"); defs.append(d)
d=mk_enum([("named",["u8","u32"],("implicit",)),("named",["u8","cu32"],("implicit",)),("named",["sk64","u32"],("implicit",))],"enumpair"); defs.append(d)
# a 256-variant enum (the maximum) with one skipped variant in the middle, and a 5-variant mixed one
big=[("unit",[],("implicit",)) for _ in range(128)]+[("unit",[],("skip",))]+[("unit",[],("implicit",)) for _ in range(128)]
d=mk_enum(big,"core"); defs.append(d)
d=mk_enum([("unit",[],("implicit",)),("tuple",["vec"],("attr",200)),("named",["u8","cu32"],("implicit",)),("unit",[],("skip",)),("tuple",["opt"],("implicit",))],"core"); defs.append(d)

# ---------------------------------------------------------------------------------------------
# extended corpus (thorough tier only; crates regx0..7, cargo feature `xcorpus`)
# ---------------------------------------------------------------------------------------------
base_count=len(defs)
XKEYS=["u8","cu32","vec","opt","sk64","skvec","as16","aspt","gen"]
for a in XKEYS:
    for b in XKEYS:
        for c in XKEYS:
            defs.append(struct(nm("X"),"tuple",[a,b,c],tag="xstruct3"))
XS=[("unit",[]),("tuple",["u8"]),("named",["u8","cu32"])]
XR=[("implicit",),("attr",0),("attr",2),("discr",1),("skip",)]
for combo in itertools.product([(sh,sr) for sh in XS for sr in XR],repeat=3):
    d=mk_enum([(sh[0],sh[1],sr) for sh,sr in combo],"xenum3")
    if d: defs.append(d)
NX=8

def write_crates(root, prefix, idxs_all, ncrates, rendered, header, cargo):
    # Generic definitions go to the last third of the crates, non-generic ones to the rest: a derive
    # change that breaks trait bounds of generic definitions then only takes the generic crates out of
    # the build (see the per-crate fallback in ./check), never the concrete definitions next to them.
    ngen=max(1,ncrates//3)
    gen_idx=[i for i in idxs_all if defs[i].generic]
    con_idx=[i for i in idxs_all if not defs[i].generic]
    parts=[con_idx[i::ncrates-ngen] for i in range(ncrates-ngen)]+[gen_idx[i::ngen] for i in range(ngen)]
    for k,idxs in enumerate(parts):
        dd=os.path.join(root,"%s%d"%(prefix,k),"src"); os.makedirs(dd,exist_ok=True)
        open(os.path.join(root,"%s%d"%(prefix,k),"Cargo.toml"),"w").write(cargo.replace("regd%d","%s%d"%(prefix,k)) if False else cargo_for(prefix,k))
        with open(os.path.join(dd,"lib.rs"),"w") as f:
            f.write(header)
            for i in idxs: f.write(rendered[i][0]+"\n\n")
            chunks=[idxs[i:i+40] for i in range(0,len(idxs),40)]
            for c,ch in enumerate(chunks):
                f.write(f"#[inline(never)]\nfn chunk{c}(v: &mut Vec<(usize, VT)>) {{\n")
                for i in ch:
                    for j,r in enumerate(rendered[i][1]): f.write(f"\tv.push(({i*8+j}, {r}));\n")
                f.write("}\n\n")
            f.write("pub fn types() -> Vec<(usize, VT)> {\n\tlet mut v = Vec::new();\n")
            for c in range(len(chunks)): f.write(f"\tchunk{c}(&mut v);\n")
            f.write("\tv\n}\n")

def cargo_for(prefix,k):
    return '''[package]
name = "%s%d"
version.workspace = true
edition.workspace = true

[dependencies]
refmodel = { path = "../refmodel" }
subjects = { path = "../subjects" }
parity-scale-codec = { path = "/repo", features = ["derive", "bit-vec", "bytes", "generic-array", "max-encoded-len", "std"] }
''' % (prefix,k)

def main():
    if len(sys.argv)>=3 and sys.argv[1]=="--json":
        json.dump([{"name":d.name,"kind":d.kind,"tag":d.tag} for d in defs], open(sys.argv[2],"w")); return
    root=sys.argv[1]
    rendered=[render(d) for d in defs]
    header='''// @generated by /verif/gen/gen_derive.py -- do not edit
#![allow(clippy::all, unused_imports, dead_code, non_camel_case_types)]
use parity_scale_codec::{CompactAs, Decode, DecodeWithMemTracking, Encode, HasCompact, MaxEncodedLen};
use refmodel::{Field, Shape, Value, Variant};
use std::marker::PhantomData;
use subjects::{derived::{add2, ca_from, ca_to, list, ptrev_from, ptrev_shape, ptrev_to, variant, CompactAsSubject, CompactOf, Pt, PtRev, CA, ZE}, vt::VT, Subject};

'''
    cargo='''[package]
name = "regd%d"
version.workspace = true
edition.workspace = true

[dependencies]
refmodel = { path = "../refmodel" }
subjects = { path = "../subjects" }
parity-scale-codec = { path = "/repo", features = ["derive", "bit-vec", "bytes", "generic-array", "max-encoded-len", "std"] }
'''
    write_crates(root,"regd",list(range(base_count)),NCRATES,rendered,header,None)
    write_crates(root,"regx",list(range(base_count,len(defs))),NX,rendered,header,None)
    by={}
    for d in defs: by[d.tag]=by.get(d.tag,0)+1
    print(len(defs),"definitions", by)

if __name__=="__main__": main()

#!/usr/bin/env python3
"""Writes /verif/MANIFEST.json (kept as a script so that the 20 entries stay consistent)."""
import json
T={
"C01":("E1 exhaustive enumeration of boundary domains vs an independent reference encoder",
 "Every registered type (997 built-in type terms + 1169 generated derive definitions, 1712 vtables with their composites and second instantiations; thorough adds 2133 more definitions) x every value of its boundary domain (u8/u16 complete, wider integers/floats at boundary and lane-coded values, all sequences up to length 3/4 over reduced element domains, 2^30-element Vec<()>): the real encoder's bytes equal the reference encoder's. Exhaustive within the stated bounds."),
"C02":("E1 exhaustive round trips over boundary domains x suffixes + preallocation-window length sweeps",
 "decode(encode(v) ++ suffix) == (v, len) for every registry type x boundary value x 4 suffixes, the same round trip through IoReader over a one-byte-at-a-time reader, and for 18 element types the vector lengths straddling the 16 KiB preallocation window (thorough: every length 0..=3*chunk+1)."),
"C03":("E2 lazy stateless DFS over input-environment answers vs the reference decoder; E3 deviation neighbourhoods",
 "Every byte string up to length 2 (quick) / 3 (thorough) over the full alphabet for every registry type, length 3/4 for small-alphabet types, depth 4-7 over a 20-byte alphabet by iterative deepening under a stated cap, and every single (thorough: double) byte deviation of valid encodings: accept/reject, value and consumed length equal the reference decoder; no panic; process death is a violation."),
"C04":("E1 exhaustive enumeration of values and of distinguishable byte strings",
 "Every u8/u16/u32 value and every byte string the 8/16/32-bit decoders can distinguish (all 2^30 four-byte mode-2 strings, tag-03 payloads), plus boundary windows +-4096, all two-free-lane values and tag x length x top-bytes strings for 64/128 bit."),
"C05":("E5 generated type definitions, E1/E2 on each, sub-process for termination",
 "1169 (thorough 3302) type definitions enumerated over the derive attribute grammar (<=3 fields / <=3 variants, every attribute and index source), each with a reference layout computed from the definition: all encode entry points, round trip, every index byte x payloads, skipped variants encode to nothing and terminate."),
"C06":("exhaustive operation-history enumeration on real containers (no state merging), invariant in every state",
 "Every operation sequence up to a depth (deque 6-8 ops over 8 operations from 5 seeds incl. wrapped rings of 62/65 elements around the count-prefix boundary, every encode form compared in every state, vec/string, list/heap, B-tree insert/remove over a 4-key alphabet and from 12/24/100-key seeds, bit push/pop) and every bit sub-slice at every offset for all 8 store/order combinations; holders of every registry value."),
"C07":("E1 enumeration of entry points; E3 deviation-bounded short-write schedules; bulk vs element-wise twin",
 "All six encode entry points on every registry value; io::Write sink under every write schedule with <=1 (thorough 2) deviations; twelve primitive element types x lengths around the preallocation window x every deque split point (small) x arrays of 0..16385 elements against the Twin<T> instantiation for encode, decode and skip."),
"C08":("E2 lazy DFS x input stacks; E3 deviation-bounded short-read schedules; explicit-state wrapper machines",
 "Every explored byte string / valid encoding / mutation decoded from unknown-length input, IoReader, decode_from_bytes and through wrapper stacks (all 39 orders up to depth 3 for core types) equals the slice decode; IoReader over a reader with <=1 (2) read deviations; all programs of <=5 (6) Input calls through all 39 stacks vs the reference machines."),
"C09":("E1 enumeration of hostile count families under a counting global allocator, worker processes",
 "Every container position of the measured types x claimed counts 2^16+1..2^32-1 x payload lengths around the 16 KiB chunk x 4 input kinds: peak live heap within a linear allowance and independent of the claimed count; >1 GiB requests refused and recorded. Two call sites with zero-width elements are open known findings."),
"C10":("E6 fault enumeration with a construction/drop ledger",
 "60 holders of instrumented elements (droppable, zero-sized droppable, skipped default-constructed payloads; arrays, Vec-backed, lists, maps, Box/Rc/Arc nests, derived and transparent types) x sizes 0..40 (vectors also 683 / 1400 elements and 18 / 35 items of 960 bytes: failures in the second and third preallocation chunk) x every failing position x {exhausted, malformed, depth-limit, mem-limit, panic} x limits hit at the holder's own levels: live instances == those handed over, nothing leaked or dropped twice, no heap byte allocated during the call left live (counting allocator; thorough: same enumeration under ASan+LSan)."),
"C11":("E1 every limit on valid encodings; E2 on byte strings; explicit-state depth machine; deep-input workers",
 "Every limit 0..=depth+2 on boundary values of every registry type (sandwich oracle; consume-all variant with and without trailing bytes), limits on explored byte strings, all programs of <=7 (9) calls through 44 stacks with binding depth limits, and 10^6-level inputs of 7 recursive shapes x 67 limits on a 2 MiB stack."),
"C12":("E6 every limit 0..=U+1; E2 on byte strings; explicit-state memory machine",
 "Every limit 0..=U+1 (U<=4096) for every DecodeWithMemTracking type x boundary values: Ok iff L>U, U=0 without heap data, U >= heap payload; same threshold shape on explored byte strings; programs through 49 stacks with binding memory limits incl. sizes next to usize::MAX vs the saturating model."),
"C13":("E1 enumeration incl. maximal witnesses from the reference model",
 "Every MaxEncodedLen/ConstEncodedLen/fixed-size type (built-in and generated derive definitions incl. compact/encoded_as/skip/generic) x boundary domain + maximal-encoding witness: encoded length <= / == declared."),
"C14":("E1 cut points and concatenations; E2 consume-all equivalence on byte strings",
 "Every cut point of every boundary value's encoding fails and both consume-all entry points reject it followed by trailing bytes; all ordered pairs (and triples over a subset) of core types concatenated decode back value by value from a slice, through IoReader over one-byte / half-buffer readers and from an unknown-length input; decode_all / decode_all_with_depth_limit succeed iff decode succeeds with empty remainder on every explored byte string."),
"C15":("E4 explicit-state BFS (stateright) over append histories, real append_or_new per transition",
 "All append histories up to depth 4 (5) with batches of 0..3 items over a 2-item alphabet, 5 item types, 4 alias forms, Vec and VecDeque targets, from empty and from seeds across 63/64 and 2^14; unit items around 2^30/2^32 incl. batches of 2^32+-1; every 1-2 byte start."),
"C16":("E1 enumeration over a compiler-checked EncodeLike pair table",
 "215 EncodeLike families instantiated with concrete types (the compiler rejects any pair the crate does not declare) x the target's boundary domain (sequence aliases over compound elements also at 16383..16385 elements): alias bytes == reference encoding of the target value and decode as the target; derive-emitted aliases of every generated definition."),
"C17":("E5 generated programs, each compiled on its own with rustc against the freshly built rlibs",
 "All valid-Rust enum definitions with <=2 (3) variants over a 16-symbol index-source alphabet, index+discriminant combinations, 256..400-variant enums, every struct shape of <=3 fields deriving CompactAs (170), every ordered pair of field attributes at every position of 1-3-field structs and variants (216), unions, each invalid case next to valid twins: accept/reject equals the reference predicate, rejections carry a diagnostic."),
"C18":("E1 DecodeLength on boundary values; E2 skip vs decode on byte strings",
 "len(encoded) == element count for every DecodeLength type x boundary values; skip and decode succeed with the same remainder or both fail on every explored byte string and on valid encodings with trailing bytes, from slices, unknown-length inputs and IoReader (incl. a fallible CompactAs type)."),
"C19":("E2 decode through CountedInput on byte strings; E4 explicit-state counter machine (hook presets the counter)",
 "count() == bytes delivered by the wrapped slice after success and after failure on every explored byte string; all sequences of <=5 (7) operations from starts {0, MAX-3..MAX} on a real CountedInput vs the saturating model, directly and through a Decode impl; 2^33 bytes without the hook."),
"C20":("exhaustive build-and-run of the feature matrix of a minimal digest crate",
 "Per-type digests of (encoded corpus through every entry point, decode outcomes on every byte string of length <=2, on every single-byte deviation and truncation of each corpus encoding incl. follow-up decodes from the same cursor after a rejection, decode_all, skip, depth-limited decode, memory-limit thresholds, decode_from_bytes, append) under 5 (36) feature configurations equal the default configuration's."),
}
ids=sorted(T)
checks=[]
for i in ids:
    tech,text=T[i]
    checks.append({
      "property_id": i,
      "quick_cmd": f"./check {i} --tier quick",
      "thorough_cmd": f"./check {i} --tier thorough",
      "evidence_file": f"/verif/evidence/{i}.json",
      "replay_cmd_template": f"./check {i} --replay {{path}}",
      "engine": "pscv",
      "level_claimed": {"category":"model_checking","text":text,"design_ref":f"DESIGN.md section 3 {i}"},
      "level_note": "Bounded exhaustive exploration of the real code: everything inside the stated bounds is enumerated, nothing is sampled. Trusted base: the reference model in harness/refmodel (validated against the repository's pinned byte vectors), the harness's value conversions and drivers, rustc/cargo. Bounds, caps hit and counts are in the evidence file.",
      "technique": tech,
    })
m={
 "version":1,
 "setup_cmd":"./setup.sh",
 "hooks":{"guard":"--cfg parity_scale_codec_verif",
   "enable":"RUSTFLAGS=\"--cfg parity_scale_codec_verif\" set by ./check and ./setup.sh for the harness build (path dependency on /repo, so every check rebuilds from the current working tree)",
   "baseline_off_cmd":"cd /repo && cargo nextest run --workspace --no-fail-fast --tool-config-file pb:/w/lib/nextest.toml --profile pb --test-threads 8 --offline",
   "source_commits":["61879e1"],"add_only":True},
 "engines":[
   {"name":"pscv","path":"/verif/harness/pscv","serves_properties":ids,"kind_free_text":"Rust harness: exhaustive enumeration (E1), lazy stateless DFS over input-environment answers (E2), deviation-bounded schedules (E3), explicit-state search with stateright and history enumeration (E4), generated programs (E5), fault enumeration (E6) over the real crate code, compared with an independent reference model (harness/refmodel)"},
   {"name":"digest","path":"/verif/harness_digest","serves_properties":["C20"],"kind_free_text":"minimal crate built once per feature configuration; prints per-type digests"},
 ],
 "checks":checks,
 "notes":"See DESIGN.md. Fix commits in /repo: 4630b44 (C13), 911e9cf (C15), 810db02 (C05); hook commit 61879e1. Open known findings (C09) are listed in known_findings.json.",
 "not_applicable":[],
}
json.dump(m,open("/verif/MANIFEST.json","w"),indent=1)
print("wrote MANIFEST.json with",len(checks),"checks")

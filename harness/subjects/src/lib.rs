//! Binding of the reference model to the real, statically typed code of `/repo`.
//!
//! `Subject` converts between dynamic `Value`s and real Rust values; `vt::VT` is a table of
//! monomorphic function pointers per registered type, so checks are written once, dynamically.

pub mod derived;
pub mod drivers;
pub mod inputs;
pub mod registry;
pub mod vt;

use bitvec::prelude::{BitBox, BitOrder, BitStore, BitVec, Lsb0, Msb0};
use parity_scale_codec::{Compact, OptionBool};
use refmodel::{b, SeqKind, Shape, Value, WrapKind};
use std::{
	borrow::Cow,
	collections::{BTreeMap, BTreeSet, BinaryHeap, LinkedList, VecDeque},
	marker::PhantomData,
	mem::size_of,
	num::*,
	ops::{Range, RangeInclusive},
	rc::Rc,
	sync::Arc,
	time::Duration,
};

pub trait Subject: Sized + 'static {
	/// every value encodes to the empty string
	const ZW: bool = false;
	fn shape() -> Shape;
	fn from_value(v: &Value) -> Self;
	fn to_value(&self) -> Value;
	/// an instance of a zero-width type
	fn zw_instance() -> Self {
		unreachable!("not a zero-width type")
	}
	/// bytes of decoded data the value holds on the heap: (exactly counted part, tree part which
	/// the property only bounds within a factor of two)
	fn heap_payload(&self) -> (usize, usize) {
		(0, 0)
	}
}

fn add2(a: (usize, usize), c: (usize, usize)) -> (usize, usize) {
	(a.0 + c.0, a.1 + c.1)
}

macro_rules! impl_uint {
	($($t:ty),*) => {$(
		impl Subject for $t {
			fn shape() -> Shape { Shape::UInt(<$t>::BITS) }
			fn from_value(v: &Value) -> Self { match v { Value::U(x) => *x as $t, _ => panic!("bad value {:?} for {}", v, stringify!($t)) } }
			fn to_value(&self) -> Value { Value::U(*self as u128) }
		}
		impl Subject for Compact<$t> {
			fn shape() -> Shape { Shape::Compact(<$t>::BITS) }
			fn from_value(v: &Value) -> Self { match v { Value::U(x) => Compact(*x as $t), _ => panic!("bad value {:?}", v) } }
			fn to_value(&self) -> Value { Value::U(self.0 as u128) }
		}
	)*}
}
impl_uint!(u8, u16, u32, u64, u128);

macro_rules! impl_sint {
	($($t:ty),*) => {$(
		impl Subject for $t {
			fn shape() -> Shape { Shape::SInt(<$t>::BITS) }
			fn from_value(v: &Value) -> Self { match v { Value::I(x) => *x as $t, _ => panic!("bad value {:?} for {}", v, stringify!($t)) } }
			fn to_value(&self) -> Value { Value::I(*self as i128) }
		}
	)*}
}
impl_sint!(i8, i16, i32, i64, i128);

macro_rules! impl_nzu {
	($($t:ty),*) => {$(
		impl Subject for $t {
			fn shape() -> Shape { Shape::NonZeroU(<$t>::BITS) }
			fn from_value(v: &Value) -> Self { match v { Value::U(x) => <$t>::new(*x as _).unwrap(), _ => panic!("bad value {:?}", v) } }
			fn to_value(&self) -> Value { Value::U(self.get() as u128) }
		}
	)*}
}
impl_nzu!(NonZeroU8, NonZeroU16, NonZeroU32, NonZeroU64, NonZeroU128);
macro_rules! impl_nzi {
	($($t:ty),*) => {$(
		impl Subject for $t {
			fn shape() -> Shape { Shape::NonZeroI(<$t>::BITS) }
			fn from_value(v: &Value) -> Self { match v { Value::I(x) => <$t>::new(*x as _).unwrap(), _ => panic!("bad value {:?}", v) } }
			fn to_value(&self) -> Value { Value::I(self.get() as i128) }
		}
	)*}
}
impl_nzi!(NonZeroI8, NonZeroI16, NonZeroI32, NonZeroI64, NonZeroI128);

impl Subject for f32 {
	fn shape() -> Shape {
		Shape::F32
	}
	fn from_value(v: &Value) -> Self {
		match v {
			Value::F32(x) => f32::from_bits(*x),
			_ => panic!("bad value {:?}", v),
		}
	}
	fn to_value(&self) -> Value {
		Value::F32(self.to_bits())
	}
}
impl Subject for f64 {
	fn shape() -> Shape {
		Shape::F64
	}
	fn from_value(v: &Value) -> Self {
		match v {
			Value::F64(x) => f64::from_bits(*x),
			_ => panic!("bad value {:?}", v),
		}
	}
	fn to_value(&self) -> Value {
		Value::F64(self.to_bits())
	}
}
impl Subject for bool {
	fn shape() -> Shape {
		Shape::Bool
	}
	fn from_value(v: &Value) -> Self {
		match v {
			Value::Bool(x) => *x,
			_ => panic!("bad value {:?}", v),
		}
	}
	fn to_value(&self) -> Value {
		Value::Bool(*self)
	}
}
impl Subject for () {
	const ZW: bool = true;
	fn shape() -> Shape {
		Shape::Unit
	}
	fn from_value(_: &Value) -> Self {}
	fn to_value(&self) -> Value {
		Value::Unit
	}
	fn zw_instance() -> Self {}
}
impl Subject for Compact<()> {
	const ZW: bool = true;
	fn shape() -> Shape {
		Shape::CompactUnit
	}
	fn from_value(_: &Value) -> Self {
		Compact(())
	}
	fn to_value(&self) -> Value {
		Value::Unit
	}
	fn zw_instance() -> Self {
		Compact(())
	}
}
impl<T: 'static> Subject for PhantomData<T> {
	const ZW: bool = true;
	fn shape() -> Shape {
		Shape::Phantom
	}
	fn from_value(_: &Value) -> Self {
		PhantomData
	}
	fn to_value(&self) -> Value {
		Value::Unit
	}
	fn zw_instance() -> Self {
		PhantomData
	}
}

impl Subject for OptionBool {
	fn shape() -> Shape {
		Shape::OptionBool
	}
	fn from_value(v: &Value) -> Self {
		match v {
			Value::None_ => OptionBool(None),
			Value::Some_(x) => OptionBool(Some(bool::from_value(x))),
			_ => panic!("bad value {:?}", v),
		}
	}
	fn to_value(&self) -> Value {
		match self.0 {
			None => Value::None_,
			Some(x) => Value::Some_(Box::new(Value::Bool(x))),
		}
	}
}

impl<T: Subject> Subject for Option<T> {
	fn shape() -> Shape {
		Shape::Option(b(T::shape()))
	}
	fn from_value(v: &Value) -> Self {
		match v {
			Value::None_ => None,
			Value::Some_(x) => Some(T::from_value(x)),
			_ => panic!("bad value {:?}", v),
		}
	}
	fn to_value(&self) -> Value {
		match self {
			None => Value::None_,
			Some(x) => Value::Some_(Box::new(x.to_value())),
		}
	}
	fn heap_payload(&self) -> (usize, usize) {
		self.as_ref().map_or((0, 0), |x| x.heap_payload())
	}
}

impl<T: Subject, E: Subject> Subject for Result<T, E> {
	fn shape() -> Shape {
		Shape::Result(b(T::shape()), b(E::shape()))
	}
	fn from_value(v: &Value) -> Self {
		match v {
			Value::Ok_(x) => Ok(T::from_value(x)),
			Value::Err_(x) => Err(E::from_value(x)),
			_ => panic!("bad value {:?}", v),
		}
	}
	fn to_value(&self) -> Value {
		match self {
			Ok(x) => Value::Ok_(Box::new(x.to_value())),
			Err(x) => Value::Err_(Box::new(x.to_value())),
		}
	}
	fn heap_payload(&self) -> (usize, usize) {
		match self {
			Ok(x) => x.heap_payload(),
			Err(x) => x.heap_payload(),
		}
	}
}

fn seq_from<T: Subject>(v: &Value) -> Vec<T> {
	match v {
		Value::List(xs) => xs.iter().map(T::from_value).collect(),
		Value::Rep(n) => (0..*n).map(|_| T::zw_instance()).collect(),
		_ => panic!("bad sequence value {:?}", v),
	}
}

fn seq_to<'a, T: Subject + 'a>(it: impl ExactSizeIterator<Item = &'a T>) -> Value {
	if T::ZW {
		Value::Rep(it.len() as u64)
	} else {
		Value::List(it.map(|x| x.to_value()).collect())
	}
}

fn seq_payload<'a, T: Subject + 'a>(it: impl ExactSizeIterator<Item = &'a T>) -> (usize, usize) {
	let mut p = (it.len() * size_of::<T>(), 0);
	for x in it {
		p = add2(p, x.heap_payload());
	}
	p
}

impl<T: Subject> Subject for Vec<T> {
	fn shape() -> Shape {
		Shape::Seq(SeqKind::Vec, b(T::shape()))
	}
	fn from_value(v: &Value) -> Self {
		seq_from(v)
	}
	fn to_value(&self) -> Value {
		seq_to(self.iter())
	}
	fn heap_payload(&self) -> (usize, usize) {
		seq_payload(self.iter())
	}
}
impl<T: Subject> Subject for VecDeque<T> {
	fn shape() -> Shape {
		Shape::Seq(SeqKind::Deque, b(T::shape()))
	}
	fn from_value(v: &Value) -> Self {
		// Sharp driver: the deque is built so that its ring buffer wraps (the first half is pushed at
		// the front and lands at the physical end of the buffer). Same logical content; an encoder
		// that mishandles the two slices shows in every check that uses a deque.
		let items = seq_from::<T>(v);
		let h = items.len() / 2;
		let mut d = VecDeque::with_capacity(items.len());
		let mut head: Vec<T> = Vec::with_capacity(h);
		for (i, x) in items.into_iter().enumerate() {
			if i < h {
				head.push(x);
			} else {
				d.push_back(x);
			}
		}
		for x in head.into_iter().rev() {
			d.push_front(x);
		}
		d
	}
	fn to_value(&self) -> Value {
		seq_to(self.iter())
	}
	fn heap_payload(&self) -> (usize, usize) {
		seq_payload(self.iter())
	}
}
impl<T: Subject> Subject for LinkedList<T> {
	fn shape() -> Shape {
		Shape::Seq(SeqKind::List, b(T::shape()))
	}
	fn from_value(v: &Value) -> Self {
		seq_from::<T>(v).into_iter().collect()
	}
	fn to_value(&self) -> Value {
		seq_to(self.iter())
	}
	fn heap_payload(&self) -> (usize, usize) {
		seq_payload(self.iter())
	}
}
impl<T: Subject + Ord> Subject for BinaryHeap<T> {
	fn shape() -> Shape {
		Shape::Seq(SeqKind::Heap, b(T::shape()))
	}
	fn from_value(v: &Value) -> Self {
		seq_from::<T>(v).into()
	}
	fn to_value(&self) -> Value {
		match seq_to(self.iter()) {
			Value::List(mut xs) => {
				xs.sort();
				Value::List(xs)
			},
			other => other,
		}
	}
	fn heap_payload(&self) -> (usize, usize) {
		seq_payload(self.iter())
	}
}
impl<T: Subject + Ord> Subject for BTreeSet<T> {
	fn shape() -> Shape {
		Shape::Seq(SeqKind::Set, b(T::shape()))
	}
	fn from_value(v: &Value) -> Self {
		seq_from::<T>(v).into_iter().collect()
	}
	fn to_value(&self) -> Value {
		seq_to(self.iter())
	}
	fn heap_payload(&self) -> (usize, usize) {
		let p = seq_payload(self.iter());
		// node storage is only bounded within a factor of two by the property
		(p.0 - self.len() * size_of::<T>(), p.1 + self.len() * size_of::<T>())
	}
}
impl<K: Subject + Ord, V: Subject> Subject for BTreeMap<K, V> {
	fn shape() -> Shape {
		Shape::Map(b(K::shape()), b(V::shape()))
	}
	fn from_value(v: &Value) -> Self {
		match v {
			Value::Map(xs) => xs.iter().map(|(k, v)| (K::from_value(k), V::from_value(v))).collect(),
			_ => panic!("bad map value {:?}", v),
		}
	}
	fn to_value(&self) -> Value {
		Value::Map(self.iter().map(|(k, v)| (k.to_value(), v.to_value())).collect())
	}
	fn heap_payload(&self) -> (usize, usize) {
		let mut p = (0, self.len() * size_of::<(K, V)>());
		for (k, v) in self {
			p = add2(p, add2(k.heap_payload(), v.heap_payload()));
		}
		p
	}
}

impl<T: Subject, const N: usize> Subject for [T; N] {
	const ZW: bool = N == 0 || T::ZW;
	fn shape() -> Shape {
		Shape::Array(N, b(T::shape()))
	}
	fn from_value(v: &Value) -> Self {
		let xs: Vec<T> = seq_from(v);
		match xs.try_into() {
			Ok(a) => a,
			Err(_) => panic!("bad array length"),
		}
	}
	fn to_value(&self) -> Value {
		seq_to(self.iter())
	}
	fn zw_instance() -> Self {
		std::array::from_fn(|_| T::zw_instance())
	}
	fn heap_payload(&self) -> (usize, usize) {
		let mut p = (0, 0);
		for x in self {
			p = add2(p, x.heap_payload());
		}
		p
	}
}

impl<T: Subject, N: generic_array::ArrayLength<T> + 'static> Subject
	for generic_array::GenericArray<T, N>
{
	fn shape() -> Shape {
		Shape::Array(N::to_usize(), b(T::shape()))
	}
	fn from_value(v: &Value) -> Self {
		generic_array::GenericArray::from_exact_iter(seq_from::<T>(v)).expect("bad array length")
	}
	fn to_value(&self) -> Value {
		seq_to(self.iter())
	}
}

macro_rules! impl_tuple {
	($( ($($n:ident $i:tt),+) ),*) => {$(
		impl<$($n: Subject),+> Subject for ($($n,)+) {
			const ZW: bool = true $(&& $n::ZW)+;
			fn shape() -> Shape { Shape::Tuple(vec![$($n::shape()),+]) }
			fn from_value(v: &Value) -> Self {
				match v {
					Value::List(xs) => ($($n::from_value(&xs[$i]),)+),
					_ => panic!("bad tuple value {:?}", v),
				}
			}
			fn to_value(&self) -> Value { Value::List(vec![$(self.$i.to_value()),+]) }
			fn zw_instance() -> Self { ($($n::zw_instance(),)+) }
			fn heap_payload(&self) -> (usize, usize) {
				let mut p = (0, 0);
				$( p = add2(p, self.$i.heap_payload()); )+
				p
			}
		}
	)*}
}
impl_tuple!(
	(A 0),
	(A 0, B 1),
	(A 0, B 1, C 2),
	(A 0, B 1, C 2, D 3),
	(A 0, B 1, C 2, D 3, E 4),
	(A 0, B 1, C 2, D 3, E 4, F 5),
	(A 0, B 1, C 2, D 3, E 4, F 5, G 6),
	(A 0, B 1, C 2, D 3, E 4, F 5, G 6, H 7),
	(A 0, B 1, C 2, D 3, E 4, F 5, G 6, H 7, I 8),
	(A 0, B 1, C 2, D 3, E 4, F 5, G 6, H 7, I 8, J 9),
	(A 0, B 1, C 2, D 3, E 4, F 5, G 6, H 7, I 8, J 9, K 10),
	(A 0, B 1, C 2, D 3, E 4, F 5, G 6, H 7, I 8, J 9, K 10, L 11),
	(A 0, B 1, C 2, D 3, E 4, F 5, G 6, H 7, I 8, J 9, K 10, L 11, M 12),
	(A 0, B 1, C 2, D 3, E 4, F 5, G 6, H 7, I 8, J 9, K 10, L 11, M 12, N 13),
	(A 0, B 1, C 2, D 3, E 4, F 5, G 6, H 7, I 8, J 9, K 10, L 11, M 12, N 13, O 14),
	(A 0, B 1, C 2, D 3, E 4, F 5, G 6, H 7, I 8, J 9, K 10, L 11, M 12, N 13, O 14, P 15),
	(A 0, B 1, C 2, D 3, E 4, F 5, G 6, H 7, I 8, J 9, K 10, L 11, M 12, N 13, O 14, P 15, Q 16),
	(A 0, B 1, C 2, D 3, E 4, F 5, G 6, H 7, I 8, J 9, K 10, L 11, M 12, N 13, O 14, P 15, Q 16, R 17)
);

/// A decoder that skips the UTF-8 check hands out a `String` that is not one; the harness must survive
/// looking at it (formatting such a string panics) and still see that it differs from every valid value.
pub fn sane_str(s: &str) -> String {
	match std::str::from_utf8(s.as_bytes()) {
		Ok(_) => s.to_string(),
		Err(_) => format!("<invalid UTF-8: {}>", s.as_bytes().iter().map(|b| format!("{:02x}", b)).collect::<String>()),
	}
}

impl Subject for String {
	fn shape() -> Shape {
		Shape::Str
	}
	fn from_value(v: &Value) -> Self {
		match v {
			Value::Str(s) => s.clone(),
			_ => panic!("bad string value {:?}", v),
		}
	}
	fn to_value(&self) -> Value {
		Value::Str(sane_str(self))
	}
	fn heap_payload(&self) -> (usize, usize) {
		(self.len(), 0)
	}
}

impl Subject for bytes::Bytes {
	fn shape() -> Shape {
		Shape::Bytes
	}
	fn from_value(v: &Value) -> Self {
		match v {
			Value::Bytes(s) => bytes::Bytes::from(s.clone()),
			_ => panic!("bad bytes value {:?}", v),
		}
	}
	fn to_value(&self) -> Value {
		Value::Bytes(self.to_vec())
	}
	fn heap_payload(&self) -> (usize, usize) {
		(self.len(), 0)
	}
}

macro_rules! impl_wrap {
	($($w:ident $k:ident),*) => {$(
		impl<T: Subject> Subject for $w<T> {
			const ZW: bool = T::ZW;
			fn shape() -> Shape { Shape::Wrap(WrapKind::$k, b(T::shape())) }
			fn from_value(v: &Value) -> Self { $w::new(T::from_value(v)) }
			fn to_value(&self) -> Value { (**self).to_value() }
			fn zw_instance() -> Self { $w::new(T::zw_instance()) }
			fn heap_payload(&self) -> (usize, usize) { add2((size_of::<T>(), 0), (**self).heap_payload()) }
		}
	)*}
}
impl_wrap!(Box Box, Rc Rc, Arc Arc);

impl<T: Subject + Clone> Subject for Cow<'static, T> {
	const ZW: bool = T::ZW;
	fn shape() -> Shape {
		Shape::Wrap(WrapKind::Cow, b(T::shape()))
	}
	fn from_value(v: &Value) -> Self {
		Cow::Owned(T::from_value(v))
	}
	fn to_value(&self) -> Value {
		(**self).to_value()
	}
	fn zw_instance() -> Self {
		Cow::Owned(T::zw_instance())
	}
	fn heap_payload(&self) -> (usize, usize) {
		(**self).heap_payload()
	}
}
impl Subject for Cow<'static, str> {
	fn shape() -> Shape {
		Shape::Wrap(WrapKind::Cow, b(Shape::Str))
	}
	fn from_value(v: &Value) -> Self {
		Cow::Owned(String::from_value(v))
	}
	fn to_value(&self) -> Value {
		Value::Str(sane_str(self))
	}
	fn heap_payload(&self) -> (usize, usize) {
		(self.len(), 0)
	}
}
impl<T: Subject + Clone> Subject for Cow<'static, [T]> {
	fn shape() -> Shape {
		Shape::Wrap(WrapKind::Cow, b(Shape::Seq(SeqKind::Vec, b(T::shape()))))
	}
	fn from_value(v: &Value) -> Self {
		Cow::Owned(seq_from(v))
	}
	fn to_value(&self) -> Value {
		seq_to(self.iter())
	}
	fn heap_payload(&self) -> (usize, usize) {
		seq_payload(self.iter())
	}
}

impl Subject for Duration {
	fn shape() -> Shape {
		Shape::Duration
	}
	fn from_value(v: &Value) -> Self {
		match v {
			Value::List(xs) => Duration::new(u64::from_value(&xs[0]), u32::from_value(&xs[1])),
			_ => panic!("bad duration value {:?}", v),
		}
	}
	fn to_value(&self) -> Value {
		Value::List(vec![Value::U(self.as_secs() as u128), Value::U(self.subsec_nanos() as u128)])
	}
}
impl<T: Subject> Subject for Range<T> {
	const ZW: bool = T::ZW;
	fn shape() -> Shape {
		Shape::Range(b(T::shape()))
	}
	fn from_value(v: &Value) -> Self {
		match v {
			Value::List(xs) => T::from_value(&xs[0])..T::from_value(&xs[1]),
			_ => panic!("bad range value {:?}", v),
		}
	}
	fn to_value(&self) -> Value {
		Value::List(vec![self.start.to_value(), self.end.to_value()])
	}
}
impl<T: Subject> Subject for RangeInclusive<T> {
	const ZW: bool = T::ZW;
	fn shape() -> Shape {
		Shape::RangeIncl(b(T::shape()))
	}
	fn from_value(v: &Value) -> Self {
		match v {
			Value::List(xs) => T::from_value(&xs[0])..=T::from_value(&xs[1]),
			_ => panic!("bad range value {:?}", v),
		}
	}
	fn to_value(&self) -> Value {
		Value::List(vec![self.start().to_value(), self.end().to_value()])
	}
}

pub trait OrderTag: BitOrder + 'static {
	const MSB0: bool;
}
impl OrderTag for Lsb0 {
	const MSB0: bool = false;
}
impl OrderTag for Msb0 {
	const MSB0: bool = true;
}

impl<S: BitStore + 'static, O: OrderTag> Subject for BitVec<S, O> {
	fn shape() -> Shape {
		Shape::Bits { store: (size_of::<S>() * 8) as u32, msb0: O::MSB0 }
	}
	fn from_value(v: &Value) -> Self {
		match v {
			Value::Bits(bs) => {
				// Sharp driver: the value is built through a longer all-ones state and then shrunk, so
				// that the unused bits of its last storage word are *not* zero. The logical value is
				// the same; an encoder that copies raw storage words leaks the stale bits.
				let mut bv: Self = bs.iter().copied().collect();
				let n = bv.len();
				for _ in 0..(size_of::<S>() * 8 + 3) {
					bv.push(true);
				}
				bv.truncate(n);
				bv
			},
			_ => panic!("bad bits value {:?}", v),
		}
	}
	fn to_value(&self) -> Value {
		Value::Bits(self.iter().by_vals().collect())
	}
	fn heap_payload(&self) -> (usize, usize) {
		(self.len().div_ceil(8), 0)
	}
}
impl<S: BitStore + 'static, O: OrderTag> Subject for BitBox<S, O> {
	fn shape() -> Shape {
		Shape::Bits { store: (size_of::<S>() * 8) as u32, msb0: O::MSB0 }
	}
	fn from_value(v: &Value) -> Self {
		BitVec::<S, O>::from_value(v).into_boxed_bitslice()
	}
	fn to_value(&self) -> Value {
		Value::Bits(self.iter().by_vals().collect())
	}
	fn heap_payload(&self) -> (usize, usize) {
		(self.len().div_ceil(8), 0)
	}
}

#!/usr/bin/env python3
"""Keeps a confirmed seeded change under /verif/seeded/<ID>-<n>/ (patch.diff, demo, notes, meta.json).
usage: keep_seeded.py <ID> <n> "<what it needs to manifest>" """
import sys, os, re, json, shutil
ID, N, needs = sys.argv[1], sys.argv[2], sys.argv[3]
src = os.environ.get("SEEDED_DIR", "/tmp/seeded_out") + f"/{ID}"
dst = f"/verif/seeded/{ID}-{os.environ.get('SEEDED_TAG', '')}{N}"
os.makedirs(dst, exist_ok=True)
shutil.copy(f"{src}/patch{N}.diff", f"{dst}/patch.diff")
for ext in ("rs", "sh"):
    if os.path.exists(f"{src}/demo{N}.{ext}"):
        shutil.copy(f"{src}/demo{N}.{ext}", f"{dst}/demo.{ext}")
if os.path.exists(f"{src}/notes{N}.md"):
    shutil.copy(f"{src}/notes{N}.md", f"{dst}/notes.md")
ver = open(f"{src}/verify{N}.txt").read()
checks = {}
for m in re.finditer(r"check (C\d+) quick: exit=(\d+) violations_lines=(\d+) first: (.*)", ver):
    checks[m.group(1)] = {"exit": int(m.group(2)), "violation_lines": int(m.group(3)), "first": m.group(4).strip()[:300]}
meta = {
    "property": ID,
    "origin": "independent sub-agent given only the property text and a scratch worktree",
    "needs_to_manifest": needs,
    "confirmed": {
        "suite_with_change": (re.search(r"suite with change:\s*(.*)", ver) or [None, ""])[1].strip(),
        "unexpected_failing_tests": int((re.search(r"unexpected failing tests: (\d+)", ver) or [None, "0"])[1]),
        "demo_with_change": "fails" if "demo WITH change: fails" in ver else "passes/na",
        "demo_without_change": "passes" if "demo WITHOUT change: passes" in ver else "fails/na",
    },
    "what_i_ran": [
        "scratch worktree: git apply patch.diff; cargo nextest run --workspace --no-fail-fast --offline; demo test with and without the change",
        "git -C /repo apply patch.diff; ./check <ID> --tier quick (and related checks); git -C /repo checkout -- .",
    ],
    "quick_checks": checks,
    "caught_by": sorted(c for c, r in checks.items() if r["exit"] == 1),
    "missed_by": sorted(c for c, r in checks.items() if r["exit"] == 0),
}
json.dump(meta, open(f"{dst}/meta.json", "w"), indent=1)
print(dst, "caught_by", meta["caught_by"], "missed_by", meta["missed_by"])

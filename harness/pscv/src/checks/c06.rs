//! C06 — encoding depends only on logical content (deterministic, layout-free).

use crate::common::*;
use bitvec::prelude::*;
use parity_scale_codec::Encode;
use refmodel::{b, domain, ref_dec, ref_enc, SeqKind, Shape, Value};
use serde_json::{json, Value as Json};
use std::collections::{BTreeMap, BTreeSet, BinaryHeap, LinkedList, VecDeque};
use subjects::{vt::VT, Subject};

// ---- generic history exploration: every operation sequence up to a depth, real object rebuilt
// ---- by replaying the history (live objects do not copy their layout) -------------------------

pub trait Machine: Sync {
	type Obj;
	const NAME: &'static str;
	fn ops(&self) -> usize;
	fn new(&self, seed: usize) -> Self::Obj;
	fn seeds(&self) -> usize;
	/// apply op `op` as the `k`-th step of the history
	fn apply(&self, o: &mut Self::Obj, op: usize, k: usize);
	/// invariant on the state: Ok(layout fingerprint) or Err(detail)
	fn check(&self, o: &Self::Obj) -> Result<u64, String>;
	fn op_name(&self, op: usize) -> String;
}

fn hist_rec<M: Machine>(m: &M, seed: usize, hist: &mut Vec<usize>, depth: usize, acc: &mut Acc) {
	// rebuild the object from the initial state by replaying the history
	let mut o = m.new(seed);
	for (k, op) in hist.iter().enumerate() {
		m.apply(&mut o, *op, k);
	}
	acc.evaluations += 1;
	acc.transitions += hist.len() as u64 + 2;
	match guarded(|| m.check(&o)) {
		Ok(Ok(fp)) => {
			acc.traces += 1;
			if !acc.seen(&(M::NAME, fp)) {
				acc.states += 1;
			}
			if hist.len() >= 2 {
				acc.nontrivial += 1;
			}
		},
		Ok(Err(detail)) | Err(detail) => {
			acc.violate(Violation {
				property: "C06".into(),
				sub: "C06.hist".into(),
				key: format!("C06|{}|history", M::NAME),
				detail: format!("{} after [{}]", detail, hist.iter().map(|o| m.op_name(*o)).collect::<Vec<_>>().join(", ")),
				case: json!({"sub": "C06.hist", "machine": M::NAME, "seed": seed, "ops": hist}),
			});
			return;
		},
	}
	if hist.len() < depth {
		for op in 0..m.ops() {
			hist.push(op);
			hist_rec(m, seed, hist, depth, acc);
			hist.pop();
		}
	}
}

pub fn explore_machine<M: Machine>(m: &M, depth: usize) -> Acc {
	// split over (seed, first op, second op) for parallelism
	let mut items: Vec<(usize, Vec<usize>)> = vec![];
	for s in 0..m.seeds() {
		items.push((s, vec![]));
		for a in 0..m.ops() {
			items.push((s, vec![a]));
			for c in 0..m.ops() {
				items.push((s, vec![a, c]));
			}
		}
	}
	let mut acc = par(&items, |(seed, prefix), acc| {
		let mut h = prefix.clone();
		if prefix.len() < 2 {
			// the node itself only (its children are separate items)
			let mut o = m.new(*seed);
			for (k, op) in h.iter().enumerate() {
				m.apply(&mut o, *op, k);
			}
			acc.evaluations += 1;
			acc.traces += 1;
			match guarded(|| m.check(&o)) {
				Ok(Ok(fp)) =>
					if !acc.seen(&(M::NAME, fp)) {
						acc.states += 1;
					},
				Ok(Err(detail)) | Err(detail) => acc.violate(Violation {
					property: "C06".into(),
					sub: "C06.hist".into(),
					key: format!("C06|{}|history", M::NAME),
					detail,
					case: json!({"sub": "C06.hist", "machine": M::NAME, "seed": seed, "ops": h}),
				}),
			}
		} else if depth >= 2 {
			hist_rec(m, *seed, &mut h, depth, acc);
		}
	});
	// distinct layout fingerprints over all threads
	acc.states = acc.distinct.len() as u64;
	acc.outcome(&format!("{}-distinct-layouts", M::NAME));
	acc
}

fn fp<T: std::hash::Hash>(x: &T) -> u64 {
	use std::hash::Hasher;
	let mut h = std::collections::hash_map::DefaultHasher::new();
	x.hash(&mut h);
	h.finish()
}

fn seq_bytes<T: Subject>(kind: SeqKind, items: &[Value]) -> Vec<u8> {
	ref_enc(&Shape::Seq(kind, b(T::shape())), &Value::List(items.to_vec())).unwrap()
}

// ---- VecDeque -------------------------------------------------------------------------------

pub struct DequeM<T>(pub std::marker::PhantomData<T>);
unsafe impl<T> Sync for DequeM<T> {}

impl<T: Subject + Encode + Clone> Machine for DequeM<T> {
	type Obj = (VecDeque<T>, usize);
	const NAME: &'static str = "VecDeque";
	fn ops(&self) -> usize {
		8
	}
	fn seeds(&self) -> usize {
		5
	}
	fn new(&self, seed: usize) -> Self::Obj {
		match seed {
			0 => (VecDeque::new(), 0),
			3 | 4 => {
				// a wrapped ring buffer holding 62 (seed 3) / 65 (seed 4) elements, 20 of them in the first
				// slice: pushes and pops cross the 1 -> 2 byte count-prefix boundary in a wrapped layout,
				// with the boundary between the lengths of the two slices
				let n = if seed == 3 { 62 } else { 65 };
				let mut d = VecDeque::with_capacity(80);
				let mut c = 0;
				for _ in 0..n - 20 {
					d.push_back(T::from_value(&domain::fill(&T::shape(), c)));
					c += 1;
				}
				for _ in 0..20 {
					d.push_front(T::from_value(&domain::fill(&T::shape(), c)));
					c += 1;
				}
				(d, c)
			},
			1 => {
				// a full ring buffer of capacity 8 whose head is in the middle
				let mut d = VecDeque::with_capacity(8);
				let mut c = 0;
				for _ in 0..5 {
					d.push_back(T::from_value(&domain::fill(&T::shape(), c)));
					c += 1;
				}
				for _ in 0..3 {
					d.pop_front();
				}
				while d.len() < d.capacity() {
					d.push_back(T::from_value(&domain::fill(&T::shape(), c)));
					c += 1;
				}
				(d, c)
			},
			_ => {
				let mut d = VecDeque::with_capacity(4);
				d.push_front(T::from_value(&domain::fill(&T::shape(), 0)));
				d.push_front(T::from_value(&domain::fill(&T::shape(), 1)));
				(d, 2)
			},
		}
	}
	fn apply(&self, o: &mut Self::Obj, op: usize, _k: usize) {
		let (d, c) = o;
		match op {
			0 => {
				d.push_front(T::from_value(&domain::fill(&T::shape(), *c)));
				*c += 1;
			},
			1 => {
				d.push_back(T::from_value(&domain::fill(&T::shape(), *c)));
				*c += 1;
			},
			2 => {
				d.pop_front();
			},
			3 => {
				d.pop_back();
			},
			4 =>
				if !d.is_empty() {
					d.rotate_left(1)
				},
			5 => {
				d.make_contiguous();
			},
			6 => d.reserve(3),
			_ => d.shrink_to_fit(),
		}
	}
	fn check(&self, o: &Self::Obj) -> Result<u64, String> {
		let d = &o.0;
		let items: Vec<Value> = d.iter().map(|x| x.to_value()).collect();
		let want = seq_bytes::<T>(SeqKind::Deque, &items);
		let got = d.encode();
		if got != want {
			return Err(format!(
				"deque with slices ({}, {}) capacity {} encodes to {} but its contents encode to {}",
				d.as_slices().0.len(),
				d.as_slices().1.len(),
				d.capacity(),
				hex(&got),
				hex(&want)
			));
		}
		let v: Vec<T> = d.iter().cloned().collect();
		if v.encode() != got {
			return Err("deque encodes differently from the vector of its elements".into());
		}
		if d.encode() != got {
			return Err("encoding twice differs".into());
		}
		// every other form of the encoding is as layout-free as the bytes
		let mut to = Vec::new();
		d.encode_to(&mut to);
		if to != got || !d.using_encoded(|b| b == &got[..]) || d.encoded_size() != got.len() {
			return Err(format!(
				"deque with slices ({}, {}) capacity {}: encode_to / using_encoded / encoded_size ({}) differ from the {} bytes of encode()",
				d.as_slices().0.len(),
				d.as_slices().1.len(),
				d.capacity(),
				d.encoded_size(),
				got.len()
			));
		}
		Ok(fp(&(want, d.as_slices().0.len(), d.capacity())))
	}
	fn op_name(&self, op: usize) -> String {
		["push_front", "push_back", "pop_front", "pop_back", "rotate_left(1)", "make_contiguous", "reserve(3)", "shrink_to_fit"][op].into()
	}
}

// ---- Vec / String ---------------------------------------------------------------------------

pub struct VecM;
impl Machine for VecM {
	type Obj = (Vec<u32>, String, usize);
	const NAME: &'static str = "Vec/String";
	fn ops(&self) -> usize {
		5
	}
	fn seeds(&self) -> usize {
		2
	}
	fn new(&self, seed: usize) -> Self::Obj {
		if seed == 0 {
			(Vec::new(), String::new(), 0)
		} else {
			(Vec::with_capacity(100), String::with_capacity(100), 0)
		}
	}
	fn apply(&self, o: &mut Self::Obj, op: usize, _k: usize) {
		match op {
			0 => {
				o.0.push(0x0403_0201 + o.2 as u32);
				o.1.push(['a', 'é', '\u{10348}'][o.2 % 3]);
				o.2 += 1;
			},
			1 => {
				o.0.pop();
				o.1.pop();
			},
			2 => {
				o.0.reserve(7);
				o.1.reserve(7);
			},
			3 => {
				o.0.shrink_to_fit();
				o.1.shrink_to_fit();
			},
			_ => {
				o.0.truncate(1);
				let n = o.1.chars().next().map(|c| c.len_utf8()).unwrap_or(0);
				o.1.truncate(n);
			},
		}
	}
	fn check(&self, o: &Self::Obj) -> Result<u64, String> {
		let items: Vec<Value> = o.0.iter().map(|x| x.to_value()).collect();
		if o.0.encode() != seq_bytes::<u32>(SeqKind::Vec, &items) {
			return Err(format!("Vec<u32> with capacity {} encodes to {}", o.0.capacity(), hex(&o.0.encode())));
		}
		if o.1.encode() != ref_enc(&Shape::Str, &Value::Str(o.1.clone())).unwrap() {
			return Err(format!("String with capacity {} encodes to {}", o.1.capacity(), hex(&o.1.encode())));
		}
		Ok(fp(&(&o.0, o.0.capacity(), &o.1, o.1.capacity())))
	}
	fn op_name(&self, op: usize) -> String {
		["push", "pop", "reserve(7)", "shrink_to_fit", "truncate(1)"][op].into()
	}
}

// ---- LinkedList / BinaryHeap ----------------------------------------------------------------

pub struct ListM;
impl Machine for ListM {
	type Obj = (LinkedList<u16>, BinaryHeap<u16>, usize);
	const NAME: &'static str = "LinkedList/BinaryHeap";
	fn ops(&self) -> usize {
		6
	}
	fn seeds(&self) -> usize {
		1
	}
	fn new(&self, _: usize) -> Self::Obj {
		(LinkedList::new(), BinaryHeap::new(), 0)
	}
	fn apply(&self, o: &mut Self::Obj, op: usize, _k: usize) {
		let x = (o.2 as u16).wrapping_mul(0x0101).wrapping_add(0x0201);
		match op {
			0 => {
				o.0.push_front(x);
				o.1.push(x);
				o.2 += 1;
			},
			1 => {
				o.0.push_back(x);
				o.1.push(x / 2);
				o.2 += 1;
			},
			2 => {
				o.0.pop_front();
				o.1.pop();
			},
			3 => {
				o.0.pop_back();
			},
			4 => {
				// split in the middle and append the halves in the other order and back
				let at = o.0.len() / 2;
				let mut tail = o.0.split_off(at);
				tail.append(&mut o.0);
				o.0 = tail;
			},
			_ => {
				let v = std::mem::take(&mut o.1).into_sorted_vec();
				o.1 = v.into_iter().rev().collect();
			},
		}
	}
	fn check(&self, o: &Self::Obj) -> Result<u64, String> {
		let items: Vec<Value> = o.0.iter().map(|x| x.to_value()).collect();
		let got = o.0.encode();
		if got != seq_bytes::<u16>(SeqKind::List, &items) {
			return Err(format!("LinkedList encodes to {}", hex(&got)));
		}
		// heap: equal as a multiset
		let hb = o.1.encode();
		let shape = Shape::Seq(SeqKind::Heap, b(Shape::UInt(16)));
		let (v, n) = ref_dec(&shape, &hb).map_err(|e| format!("heap encoding {} is not valid: {:?}", hex(&hb), e))?;
		let mut want: Vec<Value> = o.1.iter().map(|x| x.to_value()).collect();
		want.sort();
		if n != hb.len() || shape.normalize(&v) != Value::List(want) {
			return Err(format!("BinaryHeap encoding {} does not hold the heap's multiset", hex(&hb)));
		}
		if o.1.encode() != hb {
			return Err("encoding the heap twice differs".into());
		}
		Ok(fp(&(&o.0, o.1.clone().into_sorted_vec())))
	}
	fn op_name(&self, op: usize) -> String {
		["push_front", "push_back", "pop_front", "pop_back", "split_off+append", "heap-rebuild"][op].into()
	}
}

// ---- BTreeMap / BTreeSet: insert/remove histories, no merging ---------------------------------

pub struct TreeM {
	pub seed_sizes: Vec<usize>,
}
impl Machine for TreeM {
	type Obj = (BTreeMap<u16, u8>, BTreeSet<u16>);
	const NAME: &'static str = "BTreeMap/BTreeSet";
	fn ops(&self) -> usize {
		8
	}
	fn seeds(&self) -> usize {
		1 + self.seed_sizes.len() * 4
	}
	fn new(&self, seed: usize) -> Self::Obj {
		let mut m = BTreeMap::new();
		let mut s = BTreeSet::new();
		if seed > 0 {
			let n = self.seed_sizes[(seed - 1) / 4] as u16;
			let order: Vec<u16> = match (seed - 1) % 4 {
				0 => (0..n).collect(),
				1 => (0..n).rev().collect(),
				2 => (0..n).map(|i| if i % 2 == 0 { i / 2 } else { n - 1 - i / 2 }).collect(),
				_ => (0..2 * n).collect(),
			};
			for k in &order {
				m.insert(10 + k * 3, *k as u8);
				s.insert(10 + k * 3);
			}
			if (seed - 1) % 4 == 3 {
				// insert-then-remove: twice as many keys, every other one removed again
				for k in (0..2 * n).filter(|k| k % 2 == 1) {
					m.remove(&(10 + k * 3));
					s.remove(&(10 + k * 3));
				}
			}
		}
		(m, s)
	}
	fn apply(&self, o: &mut Self::Obj, op: usize, k: usize) {
		let key = [1u16, 13, 500, 40000][op % 4];
		if op < 4 {
			o.0.insert(key, k as u8);
			o.1.insert(key);
		} else {
			o.0.remove(&key);
			o.1.remove(&key);
		}
	}
	fn check(&self, o: &Self::Obj) -> Result<u64, String> {
		let items: Vec<(Value, Value)> = o.0.iter().map(|(k, v)| (k.to_value(), v.to_value())).collect();
		let want = ref_enc(&Shape::Map(b(Shape::UInt(16)), b(Shape::UInt(8))), &Value::Map(items)).unwrap();
		let got = o.0.encode();
		if got != want {
			return Err(format!("BTreeMap encodes to {} but its entries encode to {}", hex(&got), hex(&want)));
		}
		// the same logical map built freshly in ascending order
		let fresh: BTreeMap<u16, u8> = o.0.iter().map(|(k, v)| (*k, *v)).collect();
		if fresh.encode() != got {
			return Err("map reached by this history encodes differently from the freshly built equal map".into());
		}
		let sitems: Vec<Value> = o.1.iter().map(|k| k.to_value()).collect();
		if o.1.encode() != seq_bytes::<u16>(SeqKind::Set, &sitems) {
			return Err(format!("BTreeSet encodes to {}", hex(&o.1.encode())));
		}
		Ok(fp(&(&o.0, &o.1)))
	}
	fn op_name(&self, op: usize) -> String {
		format!("{}({})", if op < 4 { "insert" } else { "remove" }, [1u16, 13, 500, 40000][op % 4])
	}
}

// ---- bit sequences --------------------------------------------------------------------------

fn bits_value<S: BitStore, O: BitOrder>(s: &BitSlice<S, O>) -> Value {
	Value::Bits(s.iter().by_vals().collect())
}

fn bits_one<S: BitStore + Encode, O: BitOrder + subjects::OrderTag>(name: &str, acc: &mut Acc)
where
	BitVec<S, O>: Subject,
{
	let shape = <BitVec<S, O> as Subject>::shape();
	let w = std::mem::size_of::<S>() * 8;
	let total = 2 * w + 3;
	// backing storage patterns: all ones, alternating, position-coded
	for pat in 0..3 {
		let mut backing: BitVec<S, O> = BitVec::new();
		for i in 0..total + w {
			backing.push(match pat {
				0 => true,
				1 => i % 2 == 0,
				_ => (i * 7 + i / 5) % 3 == 0,
			});
		}
		for i in 0..=total {
			for j in i..=total {
				let sub = &backing[i..j];
				acc.evaluations += 1;
				acc.transitions += 2;
				let want = ref_enc(&shape, &bits_value(sub)).unwrap();
				let got = match guarded(|| sub.encode()) {
					Ok(g) => g,
					Err(p) => {
						acc.violate(Violation {
							property: "C06".into(),
							sub: "C06.bits".into(),
							key: format!("C06|{}|sub-slice", name),
							detail: format!("encoding the sub-slice [{}..{}] panicked: {}", i, j, p),
							case: json!({"sub": "C06.bits", "type": name, "pattern": pat, "i": i, "j": j}),
						});
						continue;
					},
				};
				// the same logical bits, freshly built at offset 0
				let fresh: BitVec<S, O> = sub.iter().by_vals().collect();
				if got != want || fresh.encode() != got {
					acc.violate(Violation {
						property: "C06".into(),
						sub: "C06.bits".into(),
						key: format!("C06|{}|sub-slice", name),
						detail: format!(
							"sub-slice [{}..{}] of pattern {} encodes to {} but its bits encode to {}",
							i,
							j,
							pat,
							hex(&got),
							hex(&want)
						),
						case: json!({"sub": "C06.bits", "type": name, "pattern": pat, "i": i, "j": j}),
					});
				} else {
					acc.traces += 1;
					if !acc.seen(&(name.to_string(), i % w, j - i, pat)) {
						acc.states += 1;
					}
					if j > i {
						acc.nontrivial += 1;
					}
				}
			}
		}
	}
	acc.outcome(&format!("{}-sub-slices", name));
}

pub struct BitsM;
impl Machine for BitsM {
	type Obj = BitVec<u16, Msb0>;
	const NAME: &'static str = "BitVec push/pop";
	fn ops(&self) -> usize {
		4
	}
	fn seeds(&self) -> usize {
		2
	}
	fn new(&self, seed: usize) -> Self::Obj {
		let mut v = BitVec::new();
		if seed == 1 {
			for i in 0..14 {
				v.push(i % 3 == 0);
			}
		}
		v
	}
	fn apply(&self, o: &mut Self::Obj, op: usize, _k: usize) {
		match op {
			0 => o.push(false),
			1 => o.push(true),
			2 => {
				o.pop();
			},
			_ =>
				if !o.is_empty() {
					// drop the first bit: the remaining bits start at offset 1 of the storage
					let rest: BitVec<u16, Msb0> = o[1..].to_bitvec();
					*o = rest;
				},
		}
	}
	fn check(&self, o: &Self::Obj) -> Result<u64, String> {
		let want = ref_enc(&<BitVec<u16, Msb0> as Subject>::shape(), &bits_value(o.as_bitslice())).unwrap();
		let got = o.encode();
		if got != want {
			return Err(format!("bit vector encodes to {} but its bits encode to {}", hex(&got), hex(&want)));
		}
		Ok(fp(&want))
	}
	fn op_name(&self, op: usize) -> String {
		["push(0)", "push(1)", "pop", "drop-first-bit"][op].into()
	}
}

// ---- holders --------------------------------------------------------------------------------

pub fn holders(vt: &VT, shape: &Shape, v: &Value) -> Result<usize, String> {
	if ref_enc(shape, v).is_err() {
		return Ok(0);
	}
	let hs = guarded(|| (vt.encode_holders)(v)).map_err(|p| format!("encoding through a holder panicked: {}", p))?;
	let plain = &hs[0].1;
	for (name, bytes) in &hs[1..] {
		if bytes != plain {
			if shape.order_free() && bytes.len() == plain.len() {
				continue; // separately built heaps may iterate in a different order
			}
			return Err(format!("{} encodes to {} but the plain value encodes to {}", name, hex(bytes), hex(plain)));
		}
	}
	Ok(hs.len())
}

pub fn run(tier: Tier, reg: &[VT]) -> Report {
	let mut rep = Report::new("C06", tier);
	let t = tier.thorough();

	let d = if t { 8 } else { 7 };
	rep.part("VecDeque<u8>", &format!("all histories of <= {} ops {{push_front, push_back, pop_front, pop_back, rotate_left, make_contiguous, reserve, shrink_to_fit}} from 5 seeds (empty, full wrapped ring, front-loaded, wrapped rings of 62 and 65 elements around the count-prefix boundary)", d), explore_machine(&DequeM::<u8>(Default::default()), d));
	let d2 = if t { 7 } else { 6 };
	rep.part("VecDeque<u32>", &format!("bulk two-slice path, histories of <= {} ops", d2), explore_machine(&DequeM::<u32>(Default::default()), d2));
	rep.part("VecDeque<Option<u8>>", &format!("element path, histories of <= {} ops", d2), explore_machine(&DequeM::<Option<u8>>(Default::default()), d2));
	rep.part("VecDeque<String>", &format!("element path, histories of <= {} ops", d2), explore_machine(&DequeM::<String>(Default::default()), d2));
	let dv = if t { 10 } else { 8 };
	rep.part("Vec / String capacity", &format!("histories of <= {} ops {{push, pop, reserve, shrink_to_fit, truncate}} from empty and with_capacity(100)", dv), explore_machine(&VecM, dv));
	let dl = if t { 9 } else { 7 };
	rep.part("LinkedList / BinaryHeap", &format!("histories of <= {} ops incl. split_off+append and heap rebuild", dl), explore_machine(&ListM, dl));
	let dt = if t { 7 } else { 6 };
	rep.part("BTreeMap / BTreeSet (from empty)", &format!("all insert/remove histories of <= {} ops over a 4-key alphabet, no merging", dt), explore_machine(&TreeM { seed_sizes: vec![] }, dt));
	rep.part("BTreeMap / BTreeSet (multi-node seeds)", "histories of <= 3 ops from seeds of 12, 24, 100 keys built ascending, descending, interleaved and by insert-then-remove", explore_machine(&TreeM { seed_sizes: vec![12, 24, 100] }, 3));
	let db = if t { 12 } else { 10 };
	rep.part("BitVec push/pop", &format!("histories of <= {} ops {{push 0, push 1, pop, drop first bit}}", db), explore_machine(&BitsM, db));

	// sub-slices at every bit offset
	let names: Vec<usize> = (0..8).collect();
	let acc = par(&names, |k, acc| match k {
		0 => bits_one::<u8, Lsb0>("BitSlice<u8, Lsb0>", acc),
		1 => bits_one::<u8, Msb0>("BitSlice<u8, Msb0>", acc),
		2 => bits_one::<u16, Lsb0>("BitSlice<u16, Lsb0>", acc),
		3 => bits_one::<u16, Msb0>("BitSlice<u16, Msb0>", acc),
		4 => bits_one::<u32, Lsb0>("BitSlice<u32, Lsb0>", acc),
		5 => bits_one::<u32, Msb0>("BitSlice<u32, Msb0>", acc),
		6 => bits_one::<u64, Lsb0>("BitSlice<u64, Lsb0>", acc),
		_ => bits_one::<u64, Msb0>("BitSlice<u64, Msb0>", acc),
	});
	rep.part("bit sub-slices", "every store x order: every sub-slice [i..j] of three backing patterns over 2 words + 3 bits, vs the reference and vs the same bits rebuilt at offset 0", acc);

	// holders
	let b = if t { domain::Bound::quick() } else { domain::Bound::small() };
	let acc = par(reg, |vt, acc| {
		let shape = (vt.shape)();
		for v in domain::values(&shape, &b) {
			acc.evaluations += 1;
			match holders(vt, &shape, &v) {
				Ok(n) => {
					acc.states += 1;
					acc.traces += n as u64;
					acc.transitions += n as u64;
					if n > 0 {
						acc.nontrivial += 1;
					}
					acc.outcome("holders-transparent");
				},
				Err(detail) => acc.violate(Violation {
					property: "C06".into(),
					sub: "C06.holder".into(),
					key: format!("C06|{}|holder", vt.name),
					detail,
					case: json!({"sub": "C06.holder", "type": vt.name, "value": value_to_json(&v)}),
				}),
			}
		}
	});
	rep.part("holders", "every registry type x boundary value behind &T, &&T, &mut T, Box, &Box, Box<Box>, Rc (shared), Arc (shared), Rc<Box>: same bytes as the plain value", acc);

	rep.rule = "every operation sequence up to a depth on the real container, rebuilt from its initial state by replaying the history (no state merging: internal layout is not observable, so merging would be an unsound abstraction); \
		the invariant (encode == reference encoding of the logical content == encoding of the freshly built equal value) is evaluated in every state; states = distinct (content, layout) fingerprints observed; non-trivial = histories of >= 2 ops"
		.into();
	rep.bounds = json!({"deque_depth": d, "vec_depth": dv, "list_depth": dl, "tree_depth": dt, "tree_seed_sizes": [12, 24, 100], "bit_history_depth": db});
	rep
}

pub fn replay(reg: &[VT], case: &Json) -> Option<String> {
	fn run_hist<M: Machine>(m: &M, seed: usize, ops: &[usize]) -> Option<String> {
		let mut o = m.new(seed);
		for (k, op) in ops.iter().enumerate() {
			m.apply(&mut o, *op, k);
		}
		match guarded(|| m.check(&o)) {
			Ok(Ok(_)) => None,
			Ok(Err(d)) | Err(d) => Some(d),
		}
	}
	match case["sub"].as_str().unwrap() {
		"C06.hist" => {
			let seed = case["seed"].as_u64().unwrap() as usize;
			let ops: Vec<usize> = case["ops"].as_array().unwrap().iter().map(|x| x.as_u64().unwrap() as usize).collect();
			match case["machine"].as_str().unwrap() {
				"VecDeque" => run_hist(&DequeM::<u8>(Default::default()), seed, &ops)
					.or_else(|| run_hist(&DequeM::<u32>(Default::default()), seed, &ops))
					.or_else(|| run_hist(&DequeM::<Option<u8>>(Default::default()), seed, &ops))
					.or_else(|| run_hist(&DequeM::<String>(Default::default()), seed, &ops)),
				"Vec/String" => run_hist(&VecM, seed, &ops),
				"LinkedList/BinaryHeap" => run_hist(&ListM, seed, &ops),
				"BTreeMap/BTreeSet" => run_hist(&TreeM { seed_sizes: vec![12, 24, 100] }, seed, &ops),
				_ => run_hist(&BitsM, seed, &ops),
			}
		},
		"C06.bits" => {
			let mut acc = Acc::default();
			match case["type"].as_str().unwrap() {
				"BitSlice<u8, Lsb0>" => bits_one::<u8, Lsb0>("BitSlice<u8, Lsb0>", &mut acc),
				"BitSlice<u8, Msb0>" => bits_one::<u8, Msb0>("BitSlice<u8, Msb0>", &mut acc),
				"BitSlice<u16, Lsb0>" => bits_one::<u16, Lsb0>("BitSlice<u16, Lsb0>", &mut acc),
				"BitSlice<u16, Msb0>" => bits_one::<u16, Msb0>("BitSlice<u16, Msb0>", &mut acc),
				"BitSlice<u32, Lsb0>" => bits_one::<u32, Lsb0>("BitSlice<u32, Lsb0>", &mut acc),
				"BitSlice<u32, Msb0>" => bits_one::<u32, Msb0>("BitSlice<u32, Msb0>", &mut acc),
				"BitSlice<u64, Lsb0>" => bits_one::<u64, Lsb0>("BitSlice<u64, Lsb0>", &mut acc),
				_ => bits_one::<u64, Msb0>("BitSlice<u64, Msb0>", &mut acc),
			}
			acc.violations.first().map(|v| v.detail.clone())
		},
		"C06.holder" => {
			let vt = find_vt(reg, case["type"].as_str().unwrap());
			holders(vt, &(vt.shape)(), &value_from_json(&case["value"])).err()
		},
		_ => None,
	}
}

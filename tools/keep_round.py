#!/usr/bin/env python3
"""Keeps a whole round of confirmed seeded changes under /verif/seeded/<tag><ID>-<n>/.
usage: keep_round.py <round dir> <tag> <needs.json>
Reads, per change, verify<n>.txt (suite + first run of the quick checks, tools/try_seeded.sh), demo_verify<n>.txt
(tools/verify_demo.sh) and, if present, recheck<n>.txt (tools/recheck_seeded.sh after the machinery was strengthened)."""
import sys, os, re, json, shutil

src_root, tag, needs_file = sys.argv[1], sys.argv[2], sys.argv[3]
needs = json.load(open(needs_file))
rows = []
for key in sorted(needs):
    ID, N = key.split("-")
    src = f"{src_root}/{ID}"
    if not os.path.exists(f"{src}/patch{N}.diff"):
        continue
    dst = f"/verif/seeded/{tag}{ID}-{N}"
    os.makedirs(dst, exist_ok=True)
    shutil.copy(f"{src}/patch{N}.diff", f"{dst}/patch.diff")
    for ext in ("rs", "sh"):
        if os.path.exists(f"{src}/demo{N}.{ext}"):
            shutil.copy(f"{src}/demo{N}.{ext}", f"{dst}/demo.{ext}")
    if os.path.exists(f"{src}/notes{N}.md"):
        shutil.copy(f"{src}/notes{N}.md", f"{dst}/notes.md")
    ver = open(f"{src}/verify{N}.txt").read()
    if os.path.exists(f"{src}/first{N}.txt"):
        ver += open(f"{src}/first{N}.txt").read()

    def parse(text, word):
        out = {}
        for m in re.finditer(word + r" (C\d+) quick: exit=(\d+) violation\w*=(\d+) first: (.*)", text):
            out[m.group(1)] = {"exit": int(m.group(2)), "violation_lines": int(m.group(3)), "first": m.group(4).strip()[:300]}
        return out

    first = parse(ver, "check")
    re_txt = open(f"{src}/recheck{N}.txt").read() if os.path.exists(f"{src}/recheck{N}.txt") else ""
    again = parse(re_txt, r"recheck \S+ by")
    demo_txt = open(f"{src}/demo_verify{N}.txt").read() if os.path.exists(f"{src}/demo_verify{N}.txt") else ver
    demo_with = "fails" if re.search(r"WITH change: (fails|exit 1)", demo_txt) else "passes/na"
    demo_without = "passes" if re.search(r"WITHOUT change: (passes|exit 0)", demo_txt) else "fails/na"
    final = dict(first)
    final.update(again)
    caught_first = sorted(c for c, r in first.items() if r["exit"] == 1)
    caught_final = sorted(c for c, r in final.items() if r["exit"] == 1)
    own_first = first.get(ID, {}).get("exit")
    if own_first == 1:
        history = "caught by the check of its own property on the first run"
    elif final.get(ID, {}).get("exit") == 1:
        what = "crashed (exit %s: a broken check, counted as a miss)" % own_first if own_first not in (0, None) else "missed it"
        other = [c for c in caught_first if c != ID]
        history = f"first run: {ID} {what}" + (f", {', '.join(other)} caught it" if other else "") + f"; caught by {ID} after the machinery was strengthened (DESIGN.md section 8)"
    else:
        history = f"not caught by {ID}"
    meta = {
        "property": ID,
        "round": tag.rstrip("-") or "r1",
        "origin": "independent sub-agent given only the property text, the list of ideas already used, and a scratch worktree",
        "needs_to_manifest": needs[key],
        "confirmed": {
            "suite_with_change": (re.search(r"suite with change:\s*(.*)", ver) or [None, ""])[1].strip(),
            "unexpected_failing_tests": int((re.search(r"unexpected failing tests: (\d+)", ver) or [None, "0"])[1]),
            "demo_with_change": demo_with,
            "demo_without_change": demo_without,
        },
        "what_i_ran": [
            "scratch worktree: git apply patch.diff; cargo nextest run --workspace --no-fail-fast --offline; demo with and without the change (tools/try_seeded.sh, tools/verify_demo.sh)",
            "git -C /repo apply patch.diff; ./check <ID> --tier quick (and related checks); git -C /repo checkout -- . (tools/try_seeded.sh, tools/recheck_seeded.sh)",
        ],
        "first_run_quick_checks": first,
        "quick_checks_now": final,
        "caught_by": caught_final,
        "missed_by": sorted(c for c, r in final.items() if r["exit"] == 0),
        "history": history,
    }
    json.dump(meta, open(f"{dst}/meta.json", "w"), indent=1)
    rows.append((key, needs[key], caught_final, "first run" if own_first == 1 else "after strengthening", demo_with, demo_without, meta["confirmed"]["unexpected_failing_tests"]))
for r in rows:
    print("| %s%s | %s | %s | %s |" % (tag, r[0], r[1], ", ".join(r[2]), r[3]))
bad = [r[0] for r in rows if r[4] != "fails" or r[5] != "passes" or r[6] != 0]
print("not fully confirmed:", bad)

//! Reference model of the SCALE codec and of the side-models the properties talk about.
//!
//! This crate deliberately depends on nothing from `/repo`. It is a boring, dynamic
//! implementation of the SCALE specification over `Shape` (a type description) and `Value`
//! (a dynamic value of a shape).

pub mod domain;
pub mod side;

use std::collections::BTreeMap;

#[derive(Clone, Copy, Debug, PartialEq, Eq, Hash, PartialOrd, Ord)]
pub enum SeqKind {
	Vec,
	Deque,
	List,
	/// multiset: element order in the encoding is unspecified
	Heap,
	/// sorted, unique
	Set,
}

#[derive(Clone, Copy, Debug, PartialEq, Eq, Hash, PartialOrd, Ord)]
pub enum WrapKind {
	Box,
	Rc,
	Arc,
	Cow,
}

#[derive(Clone, Debug, PartialEq, Eq, Hash)]
pub struct Field {
	pub shape: Shape,
	pub skip: bool,
}

#[derive(Clone, Debug, PartialEq, Eq, Hash)]
pub struct Variant {
	/// `None` = the variant is marked skip (no encoding, never decoded)
	pub index: Option<u8>,
	pub fields: Vec<Field>,
}

#[derive(Clone, Debug, PartialEq, Eq, Hash)]
pub enum Shape {
	UInt(u32),
	SInt(u32),
	F32,
	F64,
	Bool,
	Unit,
	Compact(u32),
	/// `Compact<T>` for a `CompactAs` type whose `decode_from` rejects numbers above the bound
	CompactMax(u32, u128),
	CompactUnit,
	NonZeroU(u32),
	NonZeroI(u32),
	Option(Box<Shape>),
	Result(Box<Shape>, Box<Shape>),
	OptionBool,
	Seq(SeqKind, Box<Shape>),
	Map(Box<Shape>, Box<Shape>),
	/// `[T; N]` and `GenericArray<T, N>`
	Array(usize, Box<Shape>),
	Tuple(Vec<Shape>),
	Str,
	Bytes,
	Wrap(WrapKind, Box<Shape>),
	Phantom,
	Duration,
	Range(Box<Shape>),
	RangeIncl(Box<Shape>),
	Bits { store: u32, msb0: bool },
	Struct(Vec<Field>),
	Enum(Vec<Variant>),
}

/// Dynamic values. The declaration order of the variants is chosen so that the derived `Ord`
/// agrees with Rust's `Ord` for every subject type used in ordered containers.
#[derive(Clone, Debug, PartialEq, Eq, Hash, PartialOrd, Ord)]
pub enum Value {
	Unit,
	Bool(bool),
	U(u128),
	I(i128),
	F32(u32),
	F64(u64),
	None_,
	Some_(Box<Value>),
	Ok_(Box<Value>),
	Err_(Box<Value>),
	/// sequences, arrays, tuples, struct field lists, duration (secs, nanos), range (start, end)
	List(Vec<Value>),
	/// `n` copies of a value whose encoding is empty (zero-width element), never materialised
	Rep(u64),
	Map(Vec<(Value, Value)>),
	Str(String),
	Bytes(Vec<u8>),
	Bits(Vec<bool>),
	/// variant position in the definition, field values
	Variant(usize, Vec<Value>),
}

#[derive(Clone, Debug, PartialEq, Eq)]
pub enum DecErr {
	/// input ran out
	Eof,
	/// malformed by the SCALE rules listed in the properties
	Malformed(&'static str),
}

pub fn b(s: Shape) -> Box<Shape> {
	Box::new(s)
}

impl Shape {
	/// True if every value of this shape encodes to the empty string.
	pub fn zero_width(&self) -> bool {
		match self {
			Shape::Unit | Shape::CompactUnit | Shape::Phantom => true,
			Shape::Array(n, e) => *n == 0 || e.zero_width(),
			Shape::Tuple(es) => es.iter().all(|e| e.zero_width()),
			Shape::Wrap(_, e) => e.zero_width(),
			Shape::Struct(fs) => fs.iter().all(|f| f.skip || f.shape.zero_width()),
			Shape::Range(e) | Shape::RangeIncl(e) => e.zero_width(),
			_ => false,
		}
	}

	/// The value a skipped field is reset to (`Default::default()`).
	pub fn default_value(&self) -> Value {
		match self {
			Shape::UInt(_) | Shape::Compact(_) | Shape::CompactMax(..) => Value::U(0),
			Shape::SInt(_) => Value::I(0),
			Shape::F32 => Value::F32(0),
			Shape::F64 => Value::F64(0),
			Shape::Bool => Value::Bool(false),
			Shape::Unit | Shape::CompactUnit | Shape::Phantom => Value::Unit,
			Shape::NonZeroU(_) | Shape::NonZeroI(_) => panic!("NonZero has no default"),
			Shape::Option(_) | Shape::OptionBool => Value::None_,
			Shape::Result(..) => panic!("Result has no default"),
			Shape::Seq(_, e) =>
				if e.zero_width() {
					Value::Rep(0)
				} else {
					Value::List(vec![])
				},
			Shape::Map(..) => Value::Map(vec![]),
			Shape::Array(n, e) =>
				if e.zero_width() {
					Value::Rep(*n as u64)
				} else {
					Value::List((0..*n).map(|_| e.default_value()).collect())
				},
			Shape::Tuple(es) => Value::List(es.iter().map(|e| e.default_value()).collect()),
			Shape::Str => Value::Str(String::new()),
			Shape::Bytes => Value::Bytes(vec![]),
			Shape::Wrap(_, e) => e.default_value(),
			Shape::Duration => Value::List(vec![Value::U(0), Value::U(0)]),
			Shape::Range(e) | Shape::RangeIncl(e) =>
				Value::List(vec![e.default_value(), e.default_value()]),
			Shape::Bits { .. } => Value::Bits(vec![]),
			Shape::Struct(fs) => Value::List(fs.iter().map(|f| f.shape.default_value()).collect()),
			Shape::Enum(_) => panic!("enum default is defined per type"),
		}
	}

	/// Replace skipped fields by their default and bring unordered collections into canonical
	/// order, so that two values can be compared the way the properties compare them.
	pub fn normalize(&self, v: &Value) -> Value {
		match (self, v) {
			(Shape::Option(e), Value::Some_(x)) => Value::Some_(Box::new(e.normalize(x))),
			(Shape::Result(t, _), Value::Ok_(x)) => Value::Ok_(Box::new(t.normalize(x))),
			(Shape::Result(_, e), Value::Err_(x)) => Value::Err_(Box::new(e.normalize(x))),
			(Shape::Seq(k, e), Value::List(xs)) => {
				let mut ys: Vec<Value> = xs.iter().map(|x| e.normalize(x)).collect();
				match k {
					SeqKind::Heap => ys.sort(),
					SeqKind::Set => {
						ys.sort();
						ys.dedup();
					},
					_ => {},
				}
				Value::List(ys)
			},
			(Shape::Seq(SeqKind::Set, _), Value::Rep(n)) => Value::Rep((*n).min(1)),
			(Shape::Map(k, val), Value::Map(xs)) => {
				let mut m = BTreeMap::new();
				for (a, c) in xs {
					m.insert(k.normalize(a), val.normalize(c));
				}
				Value::Map(m.into_iter().collect())
			},
			(Shape::Array(_, e), Value::List(xs)) =>
				Value::List(xs.iter().map(|x| e.normalize(x)).collect()),
			(Shape::Tuple(es), Value::List(xs)) =>
				Value::List(es.iter().zip(xs).map(|(e, x)| e.normalize(x)).collect()),
			(Shape::Wrap(_, e), x) => e.normalize(x),
			(Shape::Range(e), Value::List(xs)) | (Shape::RangeIncl(e), Value::List(xs)) =>
				Value::List(xs.iter().map(|x| e.normalize(x)).collect()),
			(Shape::Struct(fs), Value::List(xs)) => Value::List(
				fs.iter()
					.zip(xs)
					.map(|(f, x)| if f.skip { f.shape.default_value() } else { f.shape.normalize(x) })
					.collect(),
			),
			(Shape::Enum(vs), Value::Variant(i, xs)) => Value::Variant(
				*i,
				vs[*i]
					.fields
					.iter()
					.zip(xs)
					.map(|(f, x)| if f.skip { f.shape.default_value() } else { f.shape.normalize(x) })
					.collect(),
			),
			(_, x) => x.clone(),
		}
	}

	/// True if the encoding of a value is not a function of the value (heap iteration order).
	pub fn order_free(&self) -> bool {
		match self {
			Shape::Seq(SeqKind::Heap, _) => true,
			Shape::Option(e) |
			Shape::Seq(_, e) |
			Shape::Array(_, e) |
			Shape::Wrap(_, e) |
			Shape::Range(e) |
			Shape::RangeIncl(e) => e.order_free(),
			Shape::Result(a, c) | Shape::Map(a, c) => a.order_free() || c.order_free(),
			Shape::Tuple(es) => es.iter().any(|e| e.order_free()),
			Shape::Struct(fs) => fs.iter().any(|f| !f.skip && f.shape.order_free()),
			Shape::Enum(vs) =>
				vs.iter().any(|v| v.fields.iter().any(|f| !f.skip && f.shape.order_free())),
			_ => false,
		}
	}
}

// ------------------------------------------------------------------------------------------
// Encoder
// ------------------------------------------------------------------------------------------

/// SCALE compact encoding of `x` in its unique shortest form.
pub fn enc_compact(x: u128, out: &mut Vec<u8>) {
	if x < 1 << 6 {
		out.push((x as u8) << 2);
	} else if x < 1 << 14 {
		out.extend_from_slice(&(((x as u16) << 2) | 1).to_le_bytes());
	} else if x < 1 << 30 {
		out.extend_from_slice(&(((x as u32) << 2) | 2).to_le_bytes());
	} else {
		let mut n = 0usize;
		let mut t = x;
		while t != 0 {
			n += 1;
			t >>= 8;
		}
		debug_assert!(n >= 4 && n <= 16);
		out.push((((n - 4) as u8) << 2) | 3);
		out.extend_from_slice(&x.to_le_bytes()[..n]);
	}
}

pub fn compact_len(x: u128) -> usize {
	let mut v = vec![];
	enc_compact(x, &mut v);
	v.len()
}

fn enc_uint(bits: u32, x: u128, out: &mut Vec<u8>) {
	out.extend_from_slice(&x.to_le_bytes()[..(bits / 8) as usize]);
}

/// Why encoding is not defined for a value.
#[derive(Debug, Clone, PartialEq, Eq)]
pub enum EncErr {
	SkippedVariant,
	TooManyElements,
}

pub fn ref_enc(shape: &Shape, v: &Value) -> Result<Vec<u8>, EncErr> {
	let mut out = vec![];
	enc_into(shape, v, &mut out)?;
	Ok(out)
}

fn seq_len(v: &Value) -> u64 {
	match v {
		Value::List(xs) => xs.len() as u64,
		Value::Rep(n) => *n,
		_ => panic!("not a sequence value: {:?}", v),
	}
}

pub fn enc_into(shape: &Shape, v: &Value, out: &mut Vec<u8>) -> Result<(), EncErr> {
	match (shape, v) {
		(Shape::UInt(bits), Value::U(x)) => enc_uint(*bits, *x, out),
		(Shape::SInt(bits), Value::I(x)) => enc_uint(*bits, *x as u128, out),
		(Shape::NonZeroU(bits), Value::U(x)) => enc_uint(*bits, *x, out),
		(Shape::NonZeroI(bits), Value::I(x)) => enc_uint(*bits, *x as u128, out),
		(Shape::F32, Value::F32(x)) => out.extend_from_slice(&x.to_le_bytes()),
		(Shape::F64, Value::F64(x)) => out.extend_from_slice(&x.to_le_bytes()),
		(Shape::Bool, Value::Bool(x)) => out.push(*x as u8),
		(Shape::Unit, _) | (Shape::CompactUnit, _) | (Shape::Phantom, _) => {},
		(Shape::Compact(_), Value::U(x)) => enc_compact(*x, out),
		(Shape::CompactMax(_, max), Value::U(x)) if x <= max => enc_compact(*x, out),
		(Shape::Option(_), Value::None_) => out.push(0),
		(Shape::Option(e), Value::Some_(x)) => {
			out.push(1);
			enc_into(e, x, out)?;
		},
		(Shape::Result(t, _), Value::Ok_(x)) => {
			out.push(0);
			enc_into(t, x, out)?;
		},
		(Shape::Result(_, e), Value::Err_(x)) => {
			out.push(1);
			enc_into(e, x, out)?;
		},
		(Shape::OptionBool, Value::None_) => out.push(0),
		(Shape::OptionBool, Value::Some_(x)) => match **x {
			Value::Bool(true) => out.push(1),
			Value::Bool(false) => out.push(2),
			_ => panic!("bad OptionBool value"),
		},
		(Shape::Seq(kind, e), _) => {
			let mut n = seq_len(v);
			if *kind == SeqKind::Set {
				if let Value::List(xs) = v {
					let mut ys: Vec<&Value> = xs.iter().collect();
					ys.sort();
					ys.dedup();
					n = ys.len() as u64;
				} else {
					n = n.min(1);
				}
			}
			if n > u32::MAX as u64 {
				return Err(EncErr::TooManyElements);
			}
			enc_compact(n as u128, out);
			if let Value::List(xs) = v {
				match kind {
					SeqKind::Set | SeqKind::Heap => {
						// canonical order of the model: sorted ascending (sets iterate sorted;
						// for heaps the caller must not compare bytes, see `order_free`).
						let mut ys: Vec<&Value> = xs.iter().collect();
						ys.sort();
						if *kind == SeqKind::Set {
							ys.dedup();
						}
						for x in ys {
							enc_into(e, x, out)?;
						}
					},
					_ =>
						for x in xs {
							enc_into(e, x, out)?;
						},
				}
			}
		},
		(Shape::Map(k, val), Value::Map(xs)) => {
			let mut m: BTreeMap<&Value, &Value> = BTreeMap::new();
			for (a, c) in xs {
				m.insert(a, c);
			}
			enc_compact(m.len() as u128, out);
			for (a, c) in m {
				enc_into(k, a, out)?;
				enc_into(val, c, out)?;
			}
		},
		(Shape::Array(n, e), Value::List(xs)) => {
			assert_eq!(*n, xs.len());
			for x in xs {
				enc_into(e, x, out)?;
			}
		},
		(Shape::Array(n, _), Value::Rep(m)) => assert_eq!(*n as u64, *m),
		(Shape::Tuple(es), Value::List(xs)) => {
			assert_eq!(es.len(), xs.len());
			for (e, x) in es.iter().zip(xs) {
				enc_into(e, x, out)?;
			}
		},
		(Shape::Str, Value::Str(s)) => {
			enc_compact(s.len() as u128, out);
			out.extend_from_slice(s.as_bytes());
		},
		(Shape::Bytes, Value::Bytes(bs)) => {
			enc_compact(bs.len() as u128, out);
			out.extend_from_slice(bs);
		},
		(Shape::Wrap(_, e), x) => enc_into(e, x, out)?,
		(Shape::Duration, Value::List(xs)) => {
			enc_into(&Shape::UInt(64), &xs[0], out)?;
			enc_into(&Shape::UInt(32), &xs[1], out)?;
		},
		(Shape::Range(e), Value::List(xs)) | (Shape::RangeIncl(e), Value::List(xs)) => {
			enc_into(e, &xs[0], out)?;
			enc_into(e, &xs[1], out)?;
		},
		(Shape::Bits { store, msb0 }, Value::Bits(bits)) => {
			enc_compact(bits.len() as u128, out);
			let w = *store as usize;
			for chunk in bits.chunks(w) {
				let mut word: u64 = 0;
				for (i, bit) in chunk.iter().enumerate() {
					if *bit {
						let pos = if *msb0 { w - 1 - i } else { i };
						word |= 1u64 << pos;
					}
				}
				out.extend_from_slice(&word.to_le_bytes()[..w / 8]);
			}
		},
		(Shape::Struct(fs), Value::List(xs)) => {
			assert_eq!(fs.len(), xs.len());
			for (f, x) in fs.iter().zip(xs) {
				if !f.skip {
					enc_into(&f.shape, x, out)?;
				}
			}
		},
		(Shape::Enum(vs), Value::Variant(i, xs)) => {
			let var = &vs[*i];
			match var.index {
				None => return Err(EncErr::SkippedVariant),
				Some(ix) => {
					out.push(ix);
					for (f, x) in var.fields.iter().zip(xs) {
						if !f.skip {
							enc_into(&f.shape, x, out)?;
						}
					}
				},
			}
		},
		(s, v) => panic!("ref_enc: value {:?} does not fit shape {:?}", v, s),
	}
	Ok(())
}

// ------------------------------------------------------------------------------------------
// Decoder
// ------------------------------------------------------------------------------------------

/// Cursor over the input that records whether the decoder ever looked past the end.
pub struct Cur<'a> {
	pub data: &'a [u8],
	pub pos: usize,
	pub touched_end: bool,
}

impl<'a> Cur<'a> {
	pub fn new(data: &'a [u8]) -> Self {
		Cur { data, pos: 0, touched_end: false }
	}
	fn take(&mut self, n: usize) -> Result<&'a [u8], DecErr> {
		if self.data.len() - self.pos < n {
			self.touched_end = true;
			return Err(DecErr::Eof);
		}
		let s = &self.data[self.pos..self.pos + n];
		self.pos += n;
		Ok(s)
	}
	fn byte(&mut self) -> Result<u8, DecErr> {
		Ok(self.take(1)?[0])
	}
}

fn le(bytes: &[u8]) -> u128 {
	let mut buf = [0u8; 16];
	buf[..bytes.len()].copy_from_slice(bytes);
	u128::from_le_bytes(buf)
}

fn sign_extend(bits: u32, x: u128) -> i128 {
	if bits == 128 {
		x as i128
	} else {
		let shift = 128 - bits;
		((x << shift) as i128) >> shift
	}
}

/// Decode a compact integer that must fit `bits` bits. A string is accepted iff it begins with the
/// unique shortest SCALE form of a value below 2^bits.
pub fn dec_compact(bits: u32, c: &mut Cur) -> Result<u128, DecErr> {
	let first = c.byte()?;
	let x: u128 = match first & 3 {
		0 => (first >> 2) as u128,
		1 => {
			let second = c.byte()?;
			let x = le(&[first, second]) >> 2;
			if x < 1 << 6 {
				return Err(DecErr::Malformed("compact: non-minimal (2-byte mode)"));
			}
			x
		},
		2 => {
			let rest = c.take(3)?;
			let x = le(&[first, rest[0], rest[1], rest[2]]) >> 2;
			if x < 1 << 14 {
				return Err(DecErr::Malformed("compact: non-minimal (4-byte mode)"));
			}
			x
		},
		_ => {
			let n = (first >> 2) as usize + 4;
			if n > 16 {
				// canonical forms have a non-zero top byte, so the value is >= 2^128
				return Err(DecErr::Malformed("compact: over-wide length tag"));
			}
			let p = c.take(n)?;
			if p[n - 1] == 0 {
				return Err(DecErr::Malformed("compact: leading zero byte"));
			}
			let x = le(p);
			if x < 1 << 30 {
				return Err(DecErr::Malformed("compact: non-minimal (big-integer mode)"));
			}
			x
		},
	};
	if bits < 128 && x >> bits != 0 {
		return Err(DecErr::Malformed("compact: value does not fit the width"));
	}
	Ok(x)
}

/// Maximum number of elements `ref_dec` materialises. Claimed counts beyond the data supplied
/// fail by exhaustion long before this.
pub const BITS_MAX: u128 = 0x1fff_ffff;

pub fn ref_dec(shape: &Shape, data: &[u8]) -> Result<(Value, usize), DecErr> {
	let mut c = Cur::new(data);
	let v = dec_from(shape, &mut c)?;
	Ok((v, c.pos))
}

/// Like `ref_dec` but also reports whether the decoder looked past the end of `data`
/// (a failed read or a dependence on the remaining length).
pub fn ref_dec_lazy(shape: &Shape, data: &[u8]) -> (Result<(Value, usize), DecErr>, bool) {
	let mut c = Cur::new(data);
	let r = dec_from(shape, &mut c);
	let pos = c.pos;
	(r.map(|v| (v, pos)), c.touched_end)
}

fn dec_seq_elems(e: &Shape, n: u64, c: &mut Cur) -> Result<Value, DecErr> {
	if e.zero_width() {
		// zero-width elements consume nothing, so any count is satisfiable; nothing is malformed
		// inside them either (Unit, Phantom, empty arrays).
		return Ok(Value::Rep(n));
	}
	let mut xs = vec![];
	for _ in 0..n {
		xs.push(dec_from(e, c)?);
	}
	Ok(Value::List(xs))
}

pub fn dec_from(shape: &Shape, c: &mut Cur) -> Result<Value, DecErr> {
	Ok(match shape {
		Shape::UInt(bits) => Value::U(le(c.take(*bits as usize / 8)?)),
		Shape::SInt(bits) => Value::I(sign_extend(*bits, le(c.take(*bits as usize / 8)?))),
		Shape::NonZeroU(bits) => {
			let x = le(c.take(*bits as usize / 8)?);
			if x == 0 {
				return Err(DecErr::Malformed("zero for non-zero integer"));
			}
			Value::U(x)
		},
		Shape::NonZeroI(bits) => {
			let x = le(c.take(*bits as usize / 8)?);
			if x == 0 {
				return Err(DecErr::Malformed("zero for non-zero integer"));
			}
			Value::I(sign_extend(*bits, x))
		},
		Shape::F32 => Value::F32(le(c.take(4)?) as u32),
		Shape::F64 => Value::F64(le(c.take(8)?) as u64),
		Shape::Bool => match c.byte()? {
			0 => Value::Bool(false),
			1 => Value::Bool(true),
			_ => return Err(DecErr::Malformed("bool tag")),
		},
		Shape::Unit | Shape::CompactUnit | Shape::Phantom => Value::Unit,
		Shape::Compact(bits) => Value::U(dec_compact(*bits, c)?),
		Shape::CompactMax(bits, max) => {
			let x = dec_compact(*bits, c)?;
			if x > *max {
				return Err(DecErr::Malformed("number rejected by CompactAs::decode_from"));
			}
			Value::U(x)
		},
		Shape::Option(e) => match c.byte()? {
			0 => Value::None_,
			1 => Value::Some_(Box::new(dec_from(e, c)?)),
			_ => return Err(DecErr::Malformed("option tag")),
		},
		Shape::Result(t, e) => match c.byte()? {
			0 => Value::Ok_(Box::new(dec_from(t, c)?)),
			1 => Value::Err_(Box::new(dec_from(e, c)?)),
			_ => return Err(DecErr::Malformed("result tag")),
		},
		Shape::OptionBool => match c.byte()? {
			0 => Value::None_,
			1 => Value::Some_(Box::new(Value::Bool(true))),
			2 => Value::Some_(Box::new(Value::Bool(false))),
			_ => return Err(DecErr::Malformed("optionbool tag")),
		},
		Shape::Seq(_, e) => {
			let n = dec_compact(32, c)? as u64;
			dec_seq_elems(e, n, c)?
		},
		Shape::Map(k, val) => {
			let n = dec_compact(32, c)? as u64;
			let mut xs = vec![];
			for _ in 0..n {
				let a = dec_from(k, c)?;
				let v = dec_from(val, c)?;
				xs.push((a, v));
			}
			Value::Map(xs)
		},
		Shape::Array(n, e) => dec_seq_elems(e, *n as u64, c)?,
		Shape::Tuple(es) => {
			let mut xs = vec![];
			for e in es {
				xs.push(dec_from(e, c)?);
			}
			Value::List(xs)
		},
		Shape::Str => {
			let n = dec_compact(32, c)? as usize;
			let bytes = c.take(n)?;
			match std::str::from_utf8(bytes) {
				Ok(s) => Value::Str(s.to_string()),
				Err(_) => return Err(DecErr::Malformed("invalid utf-8")),
			}
		},
		Shape::Bytes => {
			let n = dec_compact(32, c)? as usize;
			Value::Bytes(c.take(n)?.to_vec())
		},
		Shape::Wrap(_, e) => dec_from(e, c)?,
		Shape::Duration => {
			let secs = le(c.take(8)?);
			let nanos = le(c.take(4)?);
			if nanos >= 1_000_000_000 {
				return Err(DecErr::Malformed("nanos >= 10^9"));
			}
			Value::List(vec![Value::U(secs), Value::U(nanos)])
		},
		Shape::Range(e) | Shape::RangeIncl(e) => {
			let a = dec_from(e, c)?;
			let z = dec_from(e, c)?;
			Value::List(vec![a, z])
		},
		Shape::Bits { store, msb0 } => {
			let n = dec_compact(32, c)?;
			if n > BITS_MAX {
				return Err(DecErr::Malformed("bit sequence longer than 2^29-1"));
			}
			let n = n as usize;
			let w = *store as usize;
			let words = (n + w - 1) / w;
			let raw = c.take(words * (w / 8))?;
			let mut bits = Vec::with_capacity(n);
			for i in 0..n {
				let word = le(&raw[(i / w) * (w / 8)..(i / w + 1) * (w / 8)]) as u64;
				let p = i % w;
				let pos = if *msb0 { w - 1 - p } else { p };
				bits.push(word >> pos & 1 == 1);
			}
			Value::Bits(bits)
		},
		Shape::Struct(fs) => {
			let mut xs = vec![];
			for f in fs {
				if f.skip {
					xs.push(f.shape.default_value());
				} else {
					xs.push(dec_from(&f.shape, c)?);
				}
			}
			Value::List(xs)
		},
		Shape::Enum(vs) => {
			let ix = c.byte()?;
			let Some((pos, var)) = vs.iter().enumerate().find(|(_, v)| v.index == Some(ix)) else {
				return Err(DecErr::Malformed("unknown variant index"));
			};
			let mut xs = vec![];
			for f in &var.fields {
				if f.skip {
					xs.push(f.shape.default_value());
				} else {
					xs.push(dec_from(&f.shape, c)?);
				}
			}
			Value::Variant(pos, xs)
		},
	})
}

#[cfg(test)]
mod tests;

//! Oracles shared by several checks: comparison of the crate's behaviour with the reference model.

use crate::common::*;
use refmodel::{ref_dec, ref_enc, EncErr, Shape, Value};
use serde_json::json;
use subjects::vt::{DecRes, VT};

/// Compare one encoding with the reference. `Ok(None)` = value has no encoding (skipped variant).
pub fn check_encode(vt: &VT, shape: &Shape, v: &Value) -> Result<Option<Vec<u8>>, String> {
	let expected = match ref_enc(shape, v) {
		Ok(e) => e,
		Err(EncErr::SkippedVariant) => return Ok(None),
		Err(EncErr::TooManyElements) => return Ok(None),
	};
	let got = match guarded(|| (vt.encode)(v)) {
		Ok(g) => g,
		Err(p) => return Err(format!("encode panicked: {}", p)),
	};
	if !shape.order_free() {
		if got != expected {
			return Err(format!("encoded bytes differ: got {} expected {}", hex(&got), hex(&expected)));
		}
	} else {
		if got.len() != expected.len() {
			return Err(format!(
				"encoded length differs: got {} ({}) expected {}",
				got.len(),
				hex(&got),
				expected.len()
			));
		}
		match ref_dec(shape, &got) {
			Ok((v2, n)) =>
				if n != got.len() || shape.normalize(&v2) != shape.normalize(v) {
					return Err(format!(
						"encoding {} does not describe the value (reference decodes {} using {} bytes)",
						hex(&got),
						value_short(&v2),
						n
					));
				},
			Err(e) => return Err(format!("encoding {} is not valid SCALE: {:?}", hex(&got), e)),
		}
	}
	Ok(Some(got))
}

/// Compare a decode result of the crate with the reference decoder on the same bytes.
/// Returns the outcome class ("accept"/"reject").
pub fn check_decode_result(shape: &Shape, bytes: &[u8], got: &Result<DecRes, String>) -> Result<&'static str, String> {
	let got = match got {
		Ok(g) => g,
		Err(p) => return Err(format!("decode panicked: {}", p)),
	};
	let want = ref_dec(shape, bytes);
	match (got, want) {
		(Err(_), Err(_)) => Ok("reject"),
		(Ok(g), Ok((v, n))) => {
			if g.consumed != n {
				return Err(format!("consumed {} bytes, reference consumes {}", g.consumed, n));
			}
			if shape.normalize(&g.value) != shape.normalize(&v) {
				return Err(format!(
					"decoded value differs: got {} reference {}",
					value_short(&g.value),
					value_short(&v)
				));
			}
			Ok("accept")
		},
		(Ok(g), Err(e)) => Err(format!(
			"accepted malformed input (reference: {:?}); returned {} consuming {}",
			e,
			value_short(&g.value),
			g.consumed
		)),
		(Err(e), Ok((v, n))) => Err(format!(
			"rejected valid input with `{}`; reference decodes {} using {} bytes",
			e,
			value_short(&v),
			n
		)),
	}
}

pub fn check_decode(vt: &VT, shape: &Shape, bytes: &[u8]) -> Result<&'static str, String> {
	let got = guarded(|| (vt.decode)(bytes));
	check_decode_result(shape, bytes, &got)
}

pub fn decode_case(sub: &str, vt: &VT, bytes: &[u8]) -> serde_json::Value {
	json!({"sub": sub, "type": vt.name, "bytes": hex_full(bytes)})
}

pub fn value_case(sub: &str, vt: &VT, v: &Value) -> serde_json::Value {
	json!({"sub": sub, "type": vt.name, "value": value_to_json(v)})
}

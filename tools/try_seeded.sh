#!/bin/sh
# tools/try_seeded.sh <ID> <n> [extra check ids...]
# Confirms a seeded change (/tmp/seeded_out/<ID>/patch<n>.diff + demo<n>.rs) in a scratch worktree
# (compiles, baseline suite passes, demo fails with it and passes without), then applies it to
# /repo, runs the registered quick check(s), and reverts /repo straight afterwards.
set -u
ID="$1"; N="$2"; shift 2
EXTRA="$*"
OUT=${SEEDED_DIR:-/tmp/seeded_out}/$ID
PATCH=$OUT/patch$N.diff
DEMO=$OUT/demo$N.rs
WT=/tmp/vt/${ID}_$N
RES=$OUT/verify$N.txt
: > "$RES"
say() { echo "$*" | tee -a "$RES"; }
[ -f "$PATCH" ] || { say "no patch $PATCH"; exit 2; }
mkdir -p /tmp/vt
git -C /repo worktree remove --force "$WT" >/dev/null 2>&1
git -C /repo worktree add --detach "$WT" HEAD >/dev/null 2>&1 || { say "cannot create worktree"; exit 2; }
export CARGO_NET_OFFLINE=true
export CARGO_TARGET_DIR=$WT/target
cd "$WT"
if ! git apply "$PATCH" 2>>"$RES"; then say "PATCH-DOES-NOT-APPLY"; cd /; git -C /repo worktree remove --force "$WT"; exit 3; fi
say "files changed: $(git diff --stat | tail -1)"
# baseline suite with the change
cargo nextest run --workspace --no-fail-fast --offline >"$OUT/suite$N.log" 2>&1
SUMMARY=$(grep -E "Summary" "$OUT/suite$N.log" | tail -1)
say "suite with change: $SUMMARY"
FAILS=$(grep -E "^\s+FAIL " "$OUT/suite$N.log" | grep -v -E "derive_no_bound_ui|scale_codec_ui_tests" | sort -u | wc -l)
say "unexpected failing tests: $FAILS"
# demo with the change
if [ -f "$DEMO" ]; then
  cp "$DEMO" tests/seeded_demo.rs
  DEFAULT_DEMO_CMD='cargo test --offline --features "derive bit-vec bytes generic-array max-encoded-len" --test seeded_demo'
  DEMO_CMD=${DEMO_CMD:-$DEFAULT_DEMO_CMD}
  if sh -c "$DEMO_CMD" >"$OUT/demo_with$N.log" 2>&1; then say "demo WITH change: passes (unexpected)"; DW=pass; else say "demo WITH change: fails (expected)"; DW=fail; fi
  git apply -R "$PATCH"
  if sh -c "$DEMO_CMD" >"$OUT/demo_without$N.log" 2>&1; then say "demo WITHOUT change: passes (expected)"; DO=pass; else say "demo WITHOUT change: fails (unexpected)"; DO=fail; fi
else
  say "no demo file"; DW=na; DO=na
fi
cd /
git -C /repo worktree remove --force "$WT" >/dev/null 2>&1
rm -rf "$WT"
# now against the real checks
if ! git -C /repo diff --quiet; then say "/repo is dirty, refusing"; exit 2; fi
git -C /repo apply "$PATCH" || { say "patch does not apply to /repo"; exit 3; }
for C in $ID $EXTRA; do
  /verif/check "$C" --tier quick >"$OUT/check_${C}_$N.log" 2>&1
  rc=$?
  V=$(grep -c "^VIOLATION" "$OUT/check_${C}_$N.log")
  say "check $C quick: exit=$rc violations_lines=$V first: $(grep -m1 'violation key' "$OUT/check_${C}_$N.log" | cut -c1-260)"
done
git -C /repo checkout -- . && git -C /repo status --short | head -3
say "verdict: suite_unexpected_fails=$FAILS demo_with=$DW demo_without=$DO"

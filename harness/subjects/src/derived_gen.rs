// placeholder until gen_derive.py is run
use crate::vt::VT;
pub fn registry() -> Vec<VT> { vec![] }

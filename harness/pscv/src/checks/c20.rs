//! C20 — the wire format is identical in every feature configuration.
//!
//! A separate minimal crate (/verif/harness_digest) is built once per feature configuration (its
//! own workspace and target dirs, so cargo's feature unification cannot blur configurations) and
//! prints one digest per type; digests are compared with the default configuration's.

use crate::common::*;
use serde_json::{json, Value as Json};
use std::{collections::BTreeMap, process::Command};

pub const OPTIONAL: [&str; 5] = ["bit-vec", "bytes", "generic-array", "max-encoded-len", "derive"];
pub const BASES: [(&str, &[&str]); 3] = [("default", &["std", "chain-error"]), ("no-default", &[]), ("no-default+chain-error", &["chain-error"])];

#[derive(Clone, Debug)]
pub struct Config {
	pub base: &'static str,
	pub features: Vec<String>,
}

impl Config {
	pub fn name(&self) -> String {
		format!("{} [{}]", self.base, self.features.join(","))
	}
}

pub fn configs(tier: Tier) -> Vec<Config> {
	let mut out = vec![];
	for (base, bf) in BASES {
		let mk = |opt: Vec<&str>| Config { base, features: bf.iter().map(|s| s.to_string()).chain(opt.iter().map(|s| s.to_string())).collect() };
		out.push(mk(OPTIONAL.to_vec()));
		if tier.thorough() || base != "no-default+chain-error" {
			out.push(mk(vec![]));
		}
		if tier.thorough() {
			for o in OPTIONAL {
				out.push(mk(vec![o]));
				out.push(mk(OPTIONAL.iter().copied().filter(|x| *x != o).collect()));
			}
		}
	}
	out
}

/// Build and run one configuration; returns type -> digest.
pub fn digests(c: &Config) -> Result<BTreeMap<String, String>, String> {
	let target = format!("{}/target/digest-{}", verif_root(), c.base);
	let mut cmd = Command::new("cargo");
	cmd.args(["build", "--release", "--offline", "--no-default-features", "--target-dir", &target])
		.current_dir(format!("{}/harness_digest", verif_root()))
		.env_remove("RUSTFLAGS")
		.env_remove("CARGO_TARGET_DIR");
	if !c.features.is_empty() {
		cmd.arg("--features").arg(c.features.join(" "));
	}
	let out = cmd.output().map_err(|e| format!("cannot run cargo: {}", e))?;
	if !out.status.success() {
		let err = String::from_utf8_lossy(&out.stderr);
		let tail: Vec<&str> = err.lines().filter(|l| l.starts_with("error")).take(5).collect();
		return Err(format!("configuration {} does not build: {}", c.name(), tail.join(" | ")));
	}
	let run = Command::new(format!("{}/release/digest", target)).output().map_err(|e| format!("cannot run digest binary: {}", e))?;
	if !run.status.success() {
		return Err(format!("digest binary of configuration {} failed: {}", c.name(), String::from_utf8_lossy(&run.stderr).lines().next().unwrap_or("")));
	}
	Ok(String::from_utf8_lossy(&run.stdout)
		.lines()
		.filter_map(|l| l.split_once('\t').map(|(a, b)| (a.to_string(), b.to_string())))
		.collect())
}

pub fn run(tier: Tier) -> Report {
	let mut rep = Report::new("C20", tier);
	let cfgs = configs(tier);
	// one worker per base (they share a target dir); bases in parallel
	let bases: Vec<&str> = BASES.iter().map(|b| b.0).collect();
	let results = std::sync::Mutex::new(Vec::<(Config, Result<BTreeMap<String, String>, String>)>::new());
	std::thread::scope(|s| {
		for b in &bases {
			let mine: Vec<Config> = cfgs.iter().filter(|c| c.base == *b).cloned().collect();
			let results = &results;
			s.spawn(move || {
				for c in mine {
					let r = digests(&c);
					results.lock().unwrap().push((c, r));
				}
			});
		}
	});
	let results = results.into_inner().unwrap();
	let reference = results
		.iter()
		.find(|(c, _)| c.base == "default" && c.features.len() == 2 + OPTIONAL.len())
		.and_then(|(_, r)| r.as_ref().ok().cloned());
	let mut acc = Acc::default();
	let Some(reference) = reference else {
		eprintln!("[C20] machinery: the default configuration did not build");
		for (c, r) in &results {
			if let Err(e) = r {
				eprintln!("  {}: {}", c.name(), e);
			}
		}
		std::process::exit(2);
	};
	for (c, r) in &results {
		acc.evaluations += 1;
		match r {
			Err(e) => acc.violate(Violation {
				property: "C20".into(),
				sub: "C20.cfg".into(),
				key: format!("C20|{}|build", c.name()),
				detail: e.clone(),
				case: json!({"sub": "C20.cfg", "base": c.base, "features": c.features}),
			}),
			Ok(d) => {
				let mut same = 0;
				for (ty, dg) in d {
					if ty.starts_with("from_bytes-panic:") || ty.starts_with("from_bytes-mismatch:") {
						// with the `bytes` integration enabled, its zero-copy path must decide like the plain one
						acc.violate(Violation {
							property: "C20".into(),
							sub: "C20.cfg".into(),
							key: format!("C20|bytes-integration|{}", ty.split(':').next().unwrap_or("")),
							detail: format!("configuration {}: {} on an input of {} bytes (the shared-buffer path decides differently from the slice path)", c.name(), ty, u64::from_str_radix(dg, 16).unwrap_or(0)),
							case: json!({"sub": "C20.cfg", "base": c.base, "features": c.features, "type": ty}),
						});
						continue;
					}
					acc.transitions += 1;
					match reference.get(ty) {
						Some(r) if r == dg => {
							same += 1;
							acc.states += 1;
							acc.traces += 1;
							acc.nontrivial += 1;
						},
						Some(r) => acc.violate(Violation {
							property: "C20".into(),
							sub: "C20.cfg".into(),
							key: format!("C20|{}|{}", c.base, ty),
							detail: format!("type {}: digest {} under configuration {} differs from {} under the default configuration (encoded bytes or decode outcomes differ)", ty, dg, c.name(), r),
							case: json!({"sub": "C20.cfg", "base": c.base, "features": c.features, "type": ty}),
						}),
						None => {
							acc.notes.insert(format!("type {} only exists outside the reference configuration", ty));
						},
					}
				}
				acc.outcome(&format!("{}: {} types identical", c.base, same));
				if acc.samples.len() < 3 {
					acc.sample(json!({"configuration": c.name(), "types_compared": d.len(), "example": d.iter().next()}));
				}
			},
		}
	}
	rep.part("feature matrix", "per-type digests of (encoded corpus, decode outcomes on every byte string of length <= 2, decode_all, skip, depth-limited decode, append) equal the default configuration's", acc);
	rep.rule = "case = (feature configuration, type); each configuration is built separately from /repo's current tree and run; non-trivial = all".into();
	rep.bounds = json!({"configurations": cfgs.len(), "bases": bases, "optional_features": OPTIONAL});
	rep.assumptions = vec!["x86_64 little-endian only; features serde / fuzz are not wire-relevant and are not built".into()];
	rep
}

pub fn replay(case: &Json) -> Option<String> {
	let base = BASES.iter().find(|b| b.0 == case["base"].as_str().unwrap())?.0;
	let features: Vec<String> = case["features"].as_array().unwrap().iter().map(|x| x.as_str().unwrap().to_string()).collect();
	let c = Config { base, features };
	let reference = digests(&Config { base: "default", features: ["std", "chain-error"].iter().chain(OPTIONAL.iter()).map(|s| s.to_string()).collect() }).ok()?;
	match digests(&c) {
		Err(e) => Some(e),
		Ok(d) => {
			for (ty, dg) in &d {
				if ty.starts_with("from_bytes-panic:") || ty.starts_with("from_bytes-mismatch:") {
					return Some(format!("{} ({} input bytes)", ty, dg));
				}
				if let Some(r) = reference.get(ty) {
					if r != dg {
						return Some(format!("type {}: digest differs from the default configuration", ty));
					}
				}
			}
			None
		},
	}
}

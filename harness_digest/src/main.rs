//! Prints one digest per type of (encoded bytes of a deterministic value corpus; for every byte
//! string of length <= 2: accept/reject, consumed length, re-encoded value, decode_all, skip,
//! depth-limited decode). Error descriptions are never part of a digest.

use parity_scale_codec::{Compact, Decode, DecodeAll, DecodeLimit, DecodeWithMemLimit, DecodeWithMemTracking, Encode, OptionBool};
use std::{
	borrow::Cow,
	collections::{BTreeMap, BTreeSet, BinaryHeap, LinkedList, VecDeque},
	marker::PhantomData,
	num::{NonZeroI64, NonZeroU16},
	ops::{Range, RangeInclusive},
	rc::Rc,
	sync::Arc,
	time::Duration,
};

struct Fnv(u64);
impl Fnv {
	fn new() -> Self {
		Fnv(0xcbf2_9ce4_8422_2325)
	}
	fn bytes(&mut self, b: &[u8]) {
		for x in b {
			self.0 ^= *x as u64;
			self.0 = self.0.wrapping_mul(0x100_0000_01b3);
		}
		// length terminator so that concatenations cannot collide
		self.0 ^= 0xff ^ (b.len() as u64) << 8;
		self.0 = self.0.wrapping_mul(0x100_0000_01b3);
	}
	fn byte(&mut self, b: u8) {
		self.bytes(&[b]);
	}
}

trait Corpus: Sized {
	fn corpus() -> Vec<Self>;
}
macro_rules! int_corpus {
	($($t:ty),*) => {$(
		impl Corpus for $t {
			fn corpus() -> Vec<Self> {
				let mut v: Vec<$t> = vec![0 as $t, 1 as $t, 2 as $t, <$t>::MAX, <$t>::MIN, <$t>::MAX - 1];
				let mut lane: u128 = 0;
				for i in 0..(<$t>::BITS / 8) { lane |= ((i + 1) as u128) << (8 * i); }
				v.push(lane as $t);
				for k in [6u32, 7, 8, 14, 15, 16, 30, 31, 32, 62, 63, 64, 126, 127] {
					if k < <$t>::BITS { v.push(((1u128 << k) as $t).wrapping_sub(1)); v.push((1u128 << k) as $t); }
				}
				v
			}
		}
	)*}
}
int_corpus!(u8, u16, u32, u64, u128, i8, i16, i32, i64, i128);
impl Corpus for f32 {
	fn corpus() -> Vec<Self> {
		[0u32, 0x8000_0000, 0x3f80_0000, 0x7fc0_0001, 0xff80_0000, 0x0403_0201].iter().map(|b| f32::from_bits(*b)).collect()
	}
}
impl Corpus for f64 {
	fn corpus() -> Vec<Self> {
		[0u64, 1 << 63, 0x3ff0_0000_0000_0000, 0x7ff8_0000_0000_0001, 0x0807_0605_0403_0201].iter().map(|b| f64::from_bits(*b)).collect()
	}
}
impl Corpus for bool {
	fn corpus() -> Vec<Self> {
		vec![false, true]
	}
}
impl Corpus for () {
	fn corpus() -> Vec<Self> {
		vec![()]
	}
}
macro_rules! compact_corpus {
	($($t:ty),*) => {$(
		impl Corpus for Compact<$t> { fn corpus() -> Vec<Self> { <$t>::corpus().into_iter().map(Compact).collect() } }
	)*}
}
compact_corpus!(u8, u16, u32, u64, u128);
impl Corpus for NonZeroU16 {
	fn corpus() -> Vec<Self> {
		u16::corpus().into_iter().filter_map(NonZeroU16::new).collect()
	}
}
impl Corpus for NonZeroI64 {
	fn corpus() -> Vec<Self> {
		i64::corpus().into_iter().filter_map(NonZeroI64::new).collect()
	}
}
impl Corpus for OptionBool {
	fn corpus() -> Vec<Self> {
		vec![OptionBool(None), OptionBool(Some(true)), OptionBool(Some(false))]
	}
}
impl Corpus for String {
	fn corpus() -> Vec<Self> {
		vec![String::new(), "a".into(), "é".into(), "hello, wörld".into(), "x".repeat(64)]
	}
}
fn small<T: Corpus>() -> Vec<T> {
	let mut c = T::corpus();
	let n = c.len();
	if n > 4 {
		let last = c.pop().unwrap();
		c.truncate(3);
		c.push(last);
	}
	c
}
impl<T: Corpus> Corpus for Option<T> {
	fn corpus() -> Vec<Self> {
		let mut v = vec![None];
		v.extend(small::<T>().into_iter().map(Some));
		v
	}
}
impl<T: Corpus, E: Corpus> Corpus for Result<T, E> {
	fn corpus() -> Vec<Self> {
		let mut v: Vec<Self> = small::<T>().into_iter().map(Ok).collect();
		v.extend(small::<E>().into_iter().map(Err));
		v
	}
}
fn seqs<T: Corpus + Clone>() -> Vec<Vec<T>> {
	let s = small::<T>();
	let mut out = vec![vec![], vec![s[0].clone()], s.clone()];
	let mut long = vec![];
	for i in 0..65 {
		long.push(s[i % s.len()].clone());
	}
	out.push(long);
	out
}
impl<T: Corpus + Clone> Corpus for Vec<T> {
	fn corpus() -> Vec<Self> {
		seqs::<T>()
	}
}
impl<T: Corpus + Clone> Corpus for VecDeque<T> {
	fn corpus() -> Vec<Self> {
		seqs::<T>()
			.into_iter()
			.map(|v| {
				// a wrapped ring buffer
				let mut d = VecDeque::new();
				let h = v.len() / 2;
				for x in &v[h..] {
					d.push_back(x.clone());
				}
				for x in v[..h].iter().rev() {
					d.push_front(x.clone());
				}
				d
			})
			.collect()
	}
}
impl<T: Corpus + Clone> Corpus for LinkedList<T> {
	fn corpus() -> Vec<Self> {
		seqs::<T>().into_iter().map(|v| v.into_iter().collect()).collect()
	}
}
impl<T: Corpus + Clone + Ord> Corpus for BTreeSet<T> {
	fn corpus() -> Vec<Self> {
		seqs::<T>().into_iter().map(|v| v.into_iter().collect()).collect()
	}
}
impl<T: Corpus + Clone + Ord> Corpus for BinaryHeap<T> {
	fn corpus() -> Vec<Self> {
		seqs::<T>().into_iter().map(|v| v.into_iter().collect()).collect()
	}
}
impl<K: Corpus + Clone + Ord, V: Corpus + Clone> Corpus for BTreeMap<K, V> {
	fn corpus() -> Vec<Self> {
		let ks = small::<K>();
		let vs = small::<V>();
		vec![BTreeMap::new(), ks.iter().cloned().zip(vs.iter().cloned().cycle()).collect()]
	}
}
impl<T: Corpus + Clone, const N: usize> Corpus for [T; N] {
	fn corpus() -> Vec<Self> {
		let s = small::<T>();
		(0..s.len()).map(|k| std::array::from_fn(|i| s[(i + k) % s.len()].clone())).collect()
	}
}
impl<A: Corpus + Clone, B: Corpus + Clone, C: Corpus + Clone> Corpus for (A, B, C) {
	fn corpus() -> Vec<Self> {
		let (a, b, c) = (small::<A>(), small::<B>(), small::<C>());
		let mut out = vec![];
		for i in 0..a.len().max(b.len()).max(c.len()) {
			out.push((a[i % a.len()].clone(), b[i % b.len()].clone(), c[i % c.len()].clone()));
		}
		out
	}
}
impl<A: Corpus + Clone, B: Corpus + Clone> Corpus for (A, B) {
	fn corpus() -> Vec<Self> {
		let (a, b) = (small::<A>(), small::<B>());
		(0..a.len().max(b.len())).map(|i| (a[i % a.len()].clone(), b[i % b.len()].clone())).collect()
	}
}
impl<T: Corpus> Corpus for Box<T> {
	fn corpus() -> Vec<Self> {
		T::corpus().into_iter().map(Box::new).collect()
	}
}
impl<T: Corpus> Corpus for Rc<T> {
	fn corpus() -> Vec<Self> {
		T::corpus().into_iter().map(Rc::new).collect()
	}
}
impl<T: Corpus> Corpus for Arc<T> {
	fn corpus() -> Vec<Self> {
		T::corpus().into_iter().map(Arc::new).collect()
	}
}
impl Corpus for Cow<'static, str> {
	fn corpus() -> Vec<Self> {
		String::corpus().into_iter().map(Cow::Owned).collect()
	}
}
impl<T> Corpus for PhantomData<T> {
	fn corpus() -> Vec<Self> {
		vec![PhantomData]
	}
}
impl Corpus for Duration {
	fn corpus() -> Vec<Self> {
		vec![Duration::new(0, 0), Duration::new(1, 999_999_999), Duration::new(u64::MAX, 1), Duration::new(0x0807_0605_0403_0201, 0x0403_0201 % 1_000_000_000)]
	}
}
impl<T: Corpus + Clone> Corpus for Range<T> {
	fn corpus() -> Vec<Self> {
		let s = small::<T>();
		vec![s[0].clone()..s[s.len() - 1].clone(), s[s.len() - 1].clone()..s[0].clone()]
	}
}
impl<T: Corpus + Clone> Corpus for RangeInclusive<T> {
	fn corpus() -> Vec<Self> {
		let s = small::<T>();
		vec![s[0].clone()..=s[s.len() - 1].clone(), s[s.len() - 1].clone()..=s[0].clone()]
	}
}

#[cfg(feature = "bit-vec")]
mod bits {
	use super::Corpus;
	use bitvec::prelude::*;
	fn patterns() -> Vec<Vec<bool>> {
		let mut out = vec![vec![], vec![true], vec![false, true, true]];
		for n in [7usize, 8, 9, 15, 16, 17, 31, 33, 64, 65] {
			out.push((0..n).map(|i| (i * 7 + i / 3) % 3 != 1).collect());
		}
		out
	}
	impl<S: BitStore, O: BitOrder> Corpus for BitVec<S, O> {
		fn corpus() -> Vec<Self> {
			patterns().into_iter().map(|p| p.into_iter().collect()).collect()
		}
	}
	impl<S: BitStore, O: BitOrder> Corpus for BitBox<S, O> {
		fn corpus() -> Vec<Self> {
			patterns().into_iter().map(|p| p.into_iter().collect::<BitVec<S, O>>().into_boxed_bitslice()).collect()
		}
	}
}
#[cfg(feature = "bytes")]
impl Corpus for bytes::Bytes {
	fn corpus() -> Vec<Self> {
		vec![bytes::Bytes::new(), bytes::Bytes::from(vec![7u8]), bytes::Bytes::from((0..=255u8).collect::<Vec<_>>())]
	}
}
#[cfg(feature = "generic-array")]
impl Corpus for generic_array::GenericArray<u16, generic_array::typenum::U3> {
	fn corpus() -> Vec<Self> {
		vec![generic_array::arr![u16; 0, 1, 0x0201], generic_array::arr![u16; 65535, 0, 7]]
	}
}

#[cfg(feature = "derive")]
mod derived {
	use super::Corpus;
	use parity_scale_codec::{Decode, Encode};
	#[derive(Encode, Decode, Clone, Debug, PartialEq)]
	pub struct DS {
		pub a: u8,
		#[codec(compact)]
		pub b: u64,
		#[codec(skip)]
		pub c: u32,
		pub d: Vec<u16>,
	}
	#[derive(Encode, Decode, Clone, Debug, PartialEq)]
	pub enum DE {
		A,
		#[codec(index = 7)]
		B(u8, #[codec(compact)] u32),
		#[codec(skip)]
		C,
		D {
			x: Option<bool>,
		},
	}
	/// occupies memory, encodes to nothing
	#[derive(Encode, Decode, Clone, Debug, PartialEq, Default)]
	pub struct AllSkip {
		#[codec(skip)]
		pub a: u64,
	}
	impl Corpus for AllSkip {
		fn corpus() -> Vec<Self> {
			vec![AllSkip { a: 0 }]
		}
	}
	impl Corpus for DS {
		fn corpus() -> Vec<Self> {
			vec![
				DS { a: 0, b: 0, c: 0, d: vec![] },
				DS { a: 255, b: 1 << 30, c: 0, d: vec![1, 0x0201] },
				DS { a: 1, b: u64::MAX, c: 0, d: vec![65535] },
			]
		}
	}
	impl Corpus for DE {
		fn corpus() -> Vec<Self> {
			vec![DE::A, DE::B(3, 64), DE::B(255, u32::MAX), DE::D { x: None }, DE::D { x: Some(true) }]
		}
	}
}

/// Extra observations that exist only with some features; hashed into separate lines so that the
/// per-type digests stay comparable across configurations.
fn digest_mem<T: Corpus + Encode + DecodeWithMemTracking>(name: &str) {
	let mut h = Fnv::new();
	for v in T::corpus() {
		let e = v.encode();
		// tracked usage = the smallest limit that succeeds (found by doubling + bisection)
		let ok = |l: usize| T::decode_with_mem_limit(&mut &e[..], l).is_ok();
		let mut hi = 1usize;
		while !ok(hi) && hi < 1 << 40 {
			hi *= 2;
		}
		let mut lo = 0usize;
		while lo + 1 < hi {
			let mid = lo + (hi - lo) / 2;
			if ok(mid) {
				hi = mid;
			} else {
				lo = mid;
			}
		}
		h.bytes(&(if ok(0) { 0u64 } else { hi as u64 }).to_le_bytes());
	}
	println!("memlimit:{}\t{:016x}", name, h.0);
}

#[cfg(feature = "bytes")]
fn digest_from_bytes<T: Corpus + Encode + Decode>(name: &str) {
	// the zero-copy path must accept / reject exactly like the slice path (valid and truncated)
	let mut h = Fnv::new();
	for v in T::corpus() {
		let e = v.encode();
		for cut in 0..=e.len().min(24) {
			let x = &e[..e.len() - cut];
			let a = std::panic::catch_unwind(|| parity_scale_codec::decode_from_bytes::<T>(bytes::Bytes::copy_from_slice(x)).map(|d| d.encode()).ok());
			let b = T::decode(&mut &x[..]).map(|d| d.encode()).ok();
			match a {
				Ok(a) => {
					h.byte((a == b) as u8);
					if a != b {
						println!("from_bytes-mismatch:{}\t{:016x}", name, x.len());
					}
				},
				Err(_) => {
					h.byte(2);
					println!("from_bytes-panic:{}\t{:016x}", name, x.len());
				},
			}
		}
	}
	println!("from_bytes:{}\t{:016x}", name, h.0);
}

/// After a rejected decode: what the next decodes from the same cursor say.
fn follow_up(h: &mut Fnv, s: &mut &[u8]) {
	match u8::decode(s) {
		Ok(b) => {
			h.byte(1);
			h.byte(b);
		},
		Err(_) => h.byte(0),
	}
	h.byte(<Option<u16>>::decode(s).is_ok() as u8);
}

/// A configuration in which some decode panics must still produce a comparable line for that type.
fn digest<T: Corpus + Encode + Decode>(name: &str) {
	if std::panic::catch_unwind(|| digest_inner::<T>(name)).is_err() {
		println!("{}\tpanicked", name);
	}
}

fn digest_inner<T: Corpus + Encode + Decode>(name: &str) {
	let mut h = Fnv::new();
	for v in T::corpus() {
		let e = v.encode();
		h.bytes(&e);
		let mut to = Vec::new();
		v.encode_to(&mut to);
		h.bytes(&to);
		v.using_encoded(|b| h.bytes(b));
		h.bytes(&(v.encoded_size() as u64).to_le_bytes());
		// round trip with a suffix
		let mut x = e.clone();
		x.push(0x5a);
		let mut s = &x[..];
		match T::decode(&mut s) {
			Ok(d) => {
				h.byte(1);
				h.bytes(&d.encode());
				h.bytes(&((x.len() - s.len()) as u64).to_le_bytes());
			},
			Err(_) => h.byte(0),
		}
	}
	// single-byte deviations of every corpus encoding (malformed-but-plausible inputs: range checks, tags)
	for v in T::corpus() {
		let e = v.encode();
		if e.len() > 48 {
			continue;
		}
		let mut m = e.clone();
		for i in 0..e.len() {
			for x in [0x00u8, 0x01, 0x02, 0x7f, 0x80, 0xff, e[i] ^ 1] {
				m[i] = x;
				let mut s = &m[..];
				match T::decode(&mut s) {
					Ok(d) => {
						h.byte(1);
						h.byte((m.len() - s.len()) as u8);
						h.bytes(&d.encode());
					},
					Err(_) => {
						h.byte(0);
						// a history: the same cursor is used again after the rejection (what a caller that
						// falls back to another type does); the follow-up decision is part of the behaviour
						follow_up(&mut h, &mut s);
					},
				}
			}
			m[i] = e[i];
		}
		// and every truncation
		for cut in 0..e.len() {
			let mut s = &e[..cut];
			let ok = T::decode(&mut s).is_ok();
			h.byte(ok as u8);
			if !ok {
				follow_up(&mut h, &mut s);
			}
		}
	}
	let mut buf = [0u8; 2];
	for len in 0..=2usize {
		let total: u32 = 1 << (8 * len);
		for n in 0..total {
			buf[0] = n as u8;
			buf[1] = (n >> 8) as u8;
			let x = &buf[..len];
			let mut s = x;
			match T::decode(&mut s) {
				Ok(d) => {
					h.byte(1);
					h.byte((x.len() - s.len()) as u8);
					h.bytes(&d.encode());
				},
				Err(_) => h.byte(0),
			}
			let mut s = x;
			h.byte(T::decode_all(&mut s).is_ok() as u8);
			let mut s = x;
			h.byte(T::skip(&mut s).is_ok() as u8);
			h.byte((x.len() - s.len()) as u8);
			let mut s = x;
			h.byte(T::decode_with_depth_limit(1, &mut s).is_ok() as u8);
		}
	}
	println!("{}\t{:016x}", name, h.0);
}

#[cfg(feature = "max-encoded-len")]
fn mel<T: parity_scale_codec::MaxEncodedLen>(name: &str) {
	println!("mel:{}\t{:016x}", name, T::max_encoded_len() as u64);
}

macro_rules! d {
	($($t:ty),* $(,)?) => {$( digest::<$t>(stringify!($t)); )*}
}

fn main() {
	std::panic::set_hook(Box::new(|_| {}));
	d!(u8, u16, u32, u64, u128, i8, i16, i32, i64, i128, f32, f64, bool, ());
	d!(Compact<u8>, Compact<u16>, Compact<u32>, Compact<u64>, Compact<u128>, NonZeroU16, NonZeroI64, OptionBool);
	d!(Option<u8>, Option<bool>, Option<Option<u16>>, Result<u8, bool>, Result<String, u32>);
	d!(Vec<u8>, Vec<u16>, Vec<i64>, Vec<u128>, Vec<f32>, Vec<bool>, Vec<String>, Vec<Option<u8>>, Vec<(u8, String)>, Vec<Vec<u8>>);
	d!(VecDeque<u32>, VecDeque<bool>, LinkedList<u8>, BinaryHeap<u8>, BTreeSet<u16>, BTreeMap<u8, u16>, BTreeMap<String, Vec<u8>>);
	d!([u8; 3], [u32; 2], [bool; 2], [String; 2], (u8, u16, bool), (Compact<u32>, String), String);
	d!(Box<u32>, Rc<u8>, Arc<String>, Cow<'static, str>, PhantomData<u8>, Duration, Range<u8>, RangeInclusive<u16>);
	d!(Option<Vec<Option<u8>>>, Box<Vec<Box<u16>>>, Vec<Box<()>>, Vec<()>, Vec<Duration>, Option<Duration>, (Duration, u8), Vec<NonZeroU16>, [NonZeroU16; 2], Vec<OptionBool>);
	#[cfg(feature = "bit-vec")]
	{
		use bitvec::prelude::*;
		d!(BitVec<u8, Lsb0>, BitVec<u16, Msb0>, BitVec<u64, Lsb0>, BitBox<u32, Msb0>);
	}
	#[cfg(feature = "bytes")]
	d!(bytes::Bytes);
	#[cfg(feature = "generic-array")]
	d!(generic_array::GenericArray<u16, generic_array::typenum::U3>);
	#[cfg(feature = "derive")]
	d!(derived::DS, derived::DE, Vec<derived::DE>, derived::AllSkip, Vec<derived::AllSkip>, (Vec<derived::AllSkip>, u8), Option<Box<derived::AllSkip>>);
	#[cfg(feature = "max-encoded-len")]
	{
		mel::<u64>("u64");
		mel::<Compact<u128>>("Compact<u128>");
		mel::<Option<(u8, [u16; 3])>>("Option<(u8, [u16; 3])>");
		mel::<Result<Duration, bool>>("Result<Duration, bool>");
	}
	macro_rules! dm {
		($($t:ty),* $(,)?) => {$( digest_mem::<$t>(stringify!($t)); )*}
	}
	dm!(Vec<u8>, Vec<u16>, Vec<u32>, Vec<u128>, Vec<String>, Vec<Vec<u8>>, VecDeque<u32>, LinkedList<u8>, BTreeSet<u16>, BTreeMap<u8, u16>, String, Box<u32>, Option<Vec<Option<u8>>>, (Compact<u32>, String));
	#[cfg(feature = "bytes")]
	{
		digest_from_bytes::<bytes::Bytes>("Bytes");
		digest_from_bytes::<(u32, bytes::Bytes)>("(u32, Bytes)");
		digest_from_bytes::<Vec<u16>>("Vec<u16>");
		digest_from_bytes::<(String, Option<u8>)>("(String, Option<u8>)");
	}
	// EncodeAppend is part of the wire format too
	{
		use parity_scale_codec::EncodeAppend;
		let mut h = Fnv::new();
		let mut enc = Vec::new();
		for i in 0..70u32 {
			enc = <Vec<u32> as EncodeAppend>::append_or_new(enc, &[i, i * 257]).unwrap();
			if i % 23 == 0 {
				h.bytes(&enc);
			}
		}
		h.bytes(&enc);
		println!("EncodeAppend<Vec<u32>>\t{:016x}", h.0);
	}
}

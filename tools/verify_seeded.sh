#!/bin/sh
# tools/verify_seeded.sh <ID> <n> [demo command...]   (SEEDED_DIR selects the round)
# Confirms a seeded change in a scratch worktree only (nothing touches /repo's working tree): it applies, the
# repository's suite still passes with it, the demonstration fails with it and passes without it.
# Writes verify<n>.txt (suite) and demo_verify<n>.txt.
set -u
ID="$1"; N="$2"; shift 2
OUT=${SEEDED_DIR:-/tmp/seeded_out}/$ID
PATCH=$OUT/patch$N.diff
WT=/tmp/vt/ver_${ID}_$N
RES=$OUT/verify$N.txt
: > "$RES"
say() { echo "$*" | tee -a "$RES"; }
mkdir -p /tmp/vt
git -C /repo worktree remove --force "$WT" >/dev/null 2>&1
git -C /repo worktree add --detach "$WT" HEAD >/dev/null 2>&1 || { say "cannot create worktree"; exit 2; }
export CARGO_NET_OFFLINE=true CARGO_TARGET_DIR=$WT/target
cd "$WT"
if ! git apply "$PATCH" 2>>"$RES"; then say "PATCH-DOES-NOT-APPLY"; cd /; git -C /repo worktree remove --force "$WT"; exit 3; fi
say "files changed: $(git diff --stat | tail -1)"
cargo nextest run --workspace --no-fail-fast --offline --build-jobs 6 --test-threads 6 >"$OUT/suite$N.log" 2>&1
say "suite with change: $(grep -E 'Summary' "$OUT/suite$N.log" | tail -1)"
say "unexpected failing tests: $(grep -E '^\s+FAIL ' "$OUT/suite$N.log" | grep -v -E 'derive_no_bound_ui|scale_codec_ui_tests' | sort -u | wc -l)"
run() {
  if [ $# -gt 0 ]; then "$@"; else cargo test --offline -j 6 --features "derive bit-vec bytes generic-array max-encoded-len" --test seeded_demo; fi
}
if [ -f "$OUT/demo$N.rs" ]; then cp "$OUT/demo$N.rs" tests/seeded_demo.rs; fi
if run "$@" >"$OUT/demo_with$N.log" 2>&1; then W=passes; else W=fails; fi
git apply -R "$PATCH"
if run "$@" >"$OUT/demo_without$N.log" 2>&1; then O=passes; else O=fails; fi
echo "$ID-$N: demo WITH change: $W; WITHOUT change: $O" | tee "$OUT/demo_verify$N.txt"
cd /; git -C /repo worktree remove --force "$WT" >/dev/null 2>&1; rm -rf "$WT"

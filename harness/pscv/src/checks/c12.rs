//! C12 — memory-limited decoding has an exact, meaningful threshold.

use crate::{checks::c03, common::*, wrapm};
use refmodel::{domain, ref_enc, side, Shape, Value};
use serde_json::{json, Value as Json};
use subjects::{
	drivers::{Cmd, Wrap},
	vt::VT,
};

fn limit_set(u: usize) -> Vec<usize> {
	if u <= 4096 {
		(0..=u + 1).collect()
	} else {
		vec![0, 1, u - 1, u, u + 1, 2 * u, usize::MAX]
	}
}

/// Threshold behaviour of one input (valid or not).
pub fn threshold(vt: &VT, shape: &Shape, x: &[u8], valid: Option<&Value>) -> Result<usize, String> {
	let m = vt.mem.as_ref().expect("mem-tracking type");
	let (un, u) = guarded(|| (m.used_mem)(x)).map_err(|p| format!("decode through MemTrackingInput panicked: {}", p))?;
	let plain = guarded(|| (vt.decode)(x)).map_err(|p| format!("decode panicked: {}", p))?;
	match (&un, &plain) {
		(Ok(a), Ok(b)) =>
			if shape.normalize(&a.value) != shape.normalize(&b.value) || a.consumed != b.consumed {
				return Err("decode through MemTrackingInput(usize::MAX) differs from plain decode".into());
			},
		(Err(_), Err(_)) => {},
		_ => return Err("accept/reject differs through MemTrackingInput(usize::MAX)".into()),
	}
	if valid.is_some() && un.is_err() {
		return Err("decode of a valid encoding failed".into());
	}
	for l in limit_set(u) {
		let r = guarded(|| (m.decode_mem_limit)(x, l)).map_err(|p| format!("decode_with_mem_limit({}) panicked: {}", l, p))?;
		match (&r, &un) {
			(Ok(a), Ok(b)) => {
				if shape.normalize(&a.value) != shape.normalize(&b.value) || a.consumed != b.consumed {
					return Err(format!("limit {}: returns something other than the unlimited decode", l));
				}
				if u > 0 && l <= u {
					return Err(format!("limit {} succeeds although the tracked usage of this input is {}", l, u));
				}
			},
			(Ok(_), Err(_)) => return Err(format!("limit {} succeeds where unlimited decoding fails", l)),
			(Err(e), Ok(_)) =>
				if l > u {
					return Err(format!("limit {} fails ({}) although the tracked usage of this input is {}", l, e, u));
				},
			(Err(_), Err(_)) => {},
		}
	}
	if let Some(v) = valid {
		if !side::may_hold_heap(shape) && u != 0 {
			return Err(format!("tracked usage {} for a value that holds no heap data", u));
		}
		if let Some((exact, tree)) = guarded(|| (m.payload)(x)).map_err(|p| format!("decode panicked: {}", p))? {
			let need = exact + tree / 2;
			let _ = (exact, tree);
			if side::holds_no_heap(shape, v) && u != 0 {
				return Err(format!("tracked usage {} for a value that holds no heap data ({})", u, value_short(v)));
			}
			if u < need {
				return Err(format!(
					"tracked usage {} is below the {} bytes of decoded data the value {} holds on the heap (exact part {}, tree part {} counted half)",
					u,
					need,
					value_short(v),
					exact,
					tree
				));
			}
		}
	}
	Ok(u)
}

pub fn bytes_node(vt: &VT, shape: &Shape, x: &[u8]) -> Result<(&'static str, bool), String> {
	let u = threshold(vt, shape, x, None)?;
	Ok((if u > 0 { "tracked" } else { "untracked" }, c03::open_node(vt, shape, x)))
}

pub fn run(tier: Tier, reg: &[VT]) -> Report {
	let mut rep = Report::new("C12", tier);
	let t = tier.thorough();
	let types: Vec<&VT> = reg.iter().filter(|v| v.mem.is_some()).collect();
	let b = if t { domain::Bound::quick() } else { domain::Bound::small() };
	let acc = par(&types, |vt, acc| {
		heartbeat(vt.name);
		let shape = (vt.shape)();
		let mut vals = domain::values(&shape, &b);
		// vectors spanning more than four preallocation chunks: every chunk must be charged
		if vt.core || t {
			if let Shape::Seq(k, e) = &shape {
				if !e.zero_width() && !matches!(k, refmodel::SeqKind::Set) {
					let unit = ref_enc(e, &domain::fill(e, 0)).map(|x| x.len().max(1)).unwrap_or(1);
					let n = 5 * 16384 / unit + 3;
					vals.push(Value::List((0..n).map(|i| domain::fill(e, i)).collect()));
					if matches!(k, refmodel::SeqKind::List) && unit <= 2 {
						// node-based lists announce per element: lengths at and beyond 2^16
						for n in [65535usize, 65536, 131072] {
							vals.push(Value::List((0..n).map(|i| domain::fill(e, i)).collect()));
						}
					}
				}
			}
		}
		// trees of every size across the node-count steps (elements are position-coded keys)
		if vt.class == "bigtree" || (t && vt.core) {
			let sizes: Vec<usize> = if t { (1..=128).collect() } else { vec![1, 2, 5, 9, 10, 11, 13, 14, 15, 19, 20, 23, 25, 27, 28, 30, 41, 55, 64, 100] };
			match &shape {
				Shape::Map(k, val) =>
					for n in sizes {
						let mut xs = vec![];
						for i in 0..n {
							xs.push((domain::fill(k, i), domain::fill(val, i)));
						}
						vals.push(Value::Map(xs));
					},
				Shape::Seq(refmodel::SeqKind::Set, e) =>
					for n in sizes {
						vals.push(Value::List((0..n).map(|i| domain::fill(e, i * 3 + 1)).collect()));
					},
				_ => {},
			}
		}
		for v in vals {
			let Ok(enc) = ref_enc(&shape, &v) else { continue };
			let enc = if shape.order_free() { (vt.encode)(&v) } else { enc };
			acc.evaluations += 1;
			match threshold(vt, &shape, &enc, Some(&v)) {
				Ok(u) => {
					let n = limit_set(u).len() as u64;
					acc.states += n;
					acc.traces += n;
					acc.transitions += n + 2;
					if u > 0 {
						acc.nontrivial += 1;
					}
					acc.outcome(&format!("U-class-{}", match u { 0 => "0", 1..=16 => "1..16", 17..=256 => "17..256", 257..=4096 => "257..4096", _ => ">4096" }));
					if u > 64 && acc.samples.len() < 2 {
						acc.sample(json!({"type": vt.name, "value": value_short(&v), "tracked_usage_U": u, "limits_tried": n}));
					}
				},
				Err(detail) => acc.violate(Violation {
					property: "C12".into(),
					sub: "C12.valid".into(),
					key: format!("C12|{}|threshold", vt.name),
					detail,
					case: json!({"sub": "C12.valid", "type": vt.name, "value": value_to_json(&v)}),
				}),
			}
		}
	});
	rep.part("thresholds on valid encodings", "every DecodeWithMemTracking registry type (built-in, derived, generic) x boundary values x every limit 0..=U+1 (U <= 4096) or boundary limits: Ok iff L > U, U = 0 without heap data, U >= heap payload", acc);

	let acc = c03::explore_all("C12", "C12.bytes", bytes_node, &types, &c03::ALL, if t { 2 } else { 1 }, u64::MAX, false);
	rep.part("thresholds on arbitrary bytes (all bytes)", "every byte string: every limited result is the unlimited result or an error, with the same threshold shape", acc);
	let (d, cap) = if t { (5, 200_000u64) } else { (4, 8_000u64) };
	let acc = c03::explore_all("C12", "C12.bytes", bytes_node, &types, &c03::B, d, cap, true);
	if acc.extra.get("types_capped").copied().unwrap_or(0) > 0 {
		rep.caps.push(format!("arbitrary-bytes exploration: run cap {} per type hit for {} types", cap, acc.extra["types_capped"]));
	}
	rep.part("thresholds on arbitrary bytes (reduced alphabet)", &format!("depth {} cap {}", d, cap), acc);

	// the memory tracker as a state machine, binding limits incl. sizes next to usize::MAX
	let mut stacks: Vec<Vec<Wrap>> = vec![];
	for l in [0usize, 1, 2, 5, 9, usize::MAX - 1, usize::MAX] {
		stacks.push(vec![Wrap::Mem(l)]);
		stacks.push(vec![Wrap::Counted, Wrap::Mem(l)]);
		stacks.push(vec![Wrap::Mem(l), Wrap::Depth(u32::MAX)]);
		stacks.push(vec![Wrap::Depth(u32::MAX), Wrap::Mem(l), Wrap::Counted]);
		for k in [1usize, 6, usize::MAX] {
			stacks.push(vec![Wrap::Mem(l), Wrap::Mem(k)]);
		}
	}
	let alphabet = [Cmd::Alloc(0), Cmd::Alloc(1), Cmd::Alloc(4), Cmd::Alloc(usize::MAX - 3), Cmd::Alloc(usize::MAX), Cmd::ReadByte, Cmd::Descend];
	let depth = if t { 7 } else { 5 };
	let acc = wrapm::explore(&stacks, &alphabet, depth, "C12", "C12.machine");
	rep.part("memory tracker as a state machine", &format!("every program of <= {} calls {{alloc(0/1/4/MAX-3/MAX), read_byte, descend}} through {} stacks with binding memory limits at every position vs the saturating reference counter", depth, stacks.len()), acc);

	rep.rule = "case = (type, input, limit) for every limit 0..=U+1 where U is the tracked usage measured with a usize::MAX limit; (wrapper stack, program). \
		The value of U is only bounded from below by the heap payload computed from the decoded value (tree maps/sets count half). non-trivial = U > 0"
		.into();
	rep.bounds = json!({"mem_tracking_types": types.len(), "full_limit_sweep_up_to": 4096, "machine_depth": depth});
	rep
}

pub fn replay(reg: &[VT], case: &Json) -> Option<String> {
	match case["sub"].as_str().unwrap() {
		"C12.valid" => {
			let vt = find_vt(reg, case["type"].as_str().unwrap());
			let shape = (vt.shape)();
			let v = value_from_json(&case["value"]);
			let enc = ref_enc(&shape, &v).ok()?;
			threshold(vt, &shape, &enc, Some(&v)).err()
		},
		"C12.bytes" => {
			let vt = find_vt(reg, case["type"].as_str().unwrap());
			threshold(vt, &(vt.shape)(), &unhex(case["bytes"].as_str().unwrap()), None).err()
		},
		"C12.machine" => wrapm::replay(case),
		_ => None,
	}
}

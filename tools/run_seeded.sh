#!/bin/sh
# tools/run_seeded.sh <seeded dir name, e.g. r3-C13-1> [check ids...]
# Applies /verif/seeded/<dir>/patch.diff to /repo, runs the quick tier of the given checks (default: the property
# the change was aimed at), and reverts /repo straight afterwards. Nothing is ever committed to /repo.
set -u
DIR="$1"; shift
VERIF="$(cd "$(dirname "$0")/.." && pwd)"
PATCH="$VERIF/seeded/$DIR/patch.diff"
[ -f "$PATCH" ] || { echo "no such seeded change: $DIR"; exit 2; }
ID=$(echo "$DIR" | grep -o 'C[0-9][0-9]' | head -1)
CHECKS="${*:-$ID}"
if ! git -C /repo diff --quiet; then echo "/repo is dirty, refusing"; exit 2; fi
git -C /repo apply "$PATCH" || { echo "patch does not apply to /repo"; exit 3; }
trap 'git -C /repo checkout -- .' EXIT INT TERM
for C in $CHECKS; do
  "$VERIF/check" "$C" --tier quick 2>&1 | grep -E "violation key|^VIOLATION|tier:" | head -5 | cut -c1-260
  echo "== $DIR by $C: done"
done

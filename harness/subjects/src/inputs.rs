//! Input/Output environments owned by the harness. Every source of nondeterminism a decoder or
//! encoder can observe (bytes, exhaustion, reported length, short reads/writes) is decided here.

use parity_scale_codec::{Error, Input};
use std::io;

/// Adapter that lets input stacks be built at run time: forwards **every** trait method.
pub struct DynIn<'a>(pub &'a mut dyn Input);

impl Input for DynIn<'_> {
	fn remaining_len(&mut self) -> Result<Option<usize>, Error> {
		self.0.remaining_len()
	}
	fn read(&mut self, into: &mut [u8]) -> Result<(), Error> {
		self.0.read(into)
	}
	fn read_byte(&mut self) -> Result<u8, Error> {
		self.0.read_byte()
	}
	fn descend_ref(&mut self) -> Result<(), Error> {
		self.0.descend_ref()
	}
	fn ascend_ref(&mut self) {
		self.0.ascend_ref()
	}
	fn on_before_alloc_mem(&mut self, size: usize) -> Result<(), Error> {
		self.0.on_before_alloc_mem(size)
	}
}

/// A slice whose remaining length is unknown.
pub struct NoLen<'a> {
	pub data: &'a [u8],
	pub pos: usize,
}

impl<'a> NoLen<'a> {
	pub fn new(data: &'a [u8]) -> Self {
		NoLen { data, pos: 0 }
	}
}

impl Input for NoLen<'_> {
	fn remaining_len(&mut self) -> Result<Option<usize>, Error> {
		Ok(None)
	}
	fn read(&mut self, into: &mut [u8]) -> Result<(), Error> {
		if into.len() > self.data.len() - self.pos {
			return Err("NoLen: exhausted".into());
		}
		into.copy_from_slice(&self.data[self.pos..self.pos + into.len()]);
		self.pos += into.len();
		Ok(())
	}
}

/// A slice-like input that records whether the decoder ever looked past the end of the prefix it
/// was given (a read that failed for lack of data, or a query of the remaining length).
pub struct LazyInput<'a> {
	pub data: &'a [u8],
	pub pos: usize,
	pub touched_end: bool,
	pub asked_len: bool,
}

impl<'a> LazyInput<'a> {
	pub fn new(data: &'a [u8]) -> Self {
		LazyInput { data, pos: 0, touched_end: false, asked_len: false }
	}
}

impl Input for LazyInput<'_> {
	fn remaining_len(&mut self) -> Result<Option<usize>, Error> {
		self.asked_len = true;
		Ok(Some(self.data.len() - self.pos))
	}
	fn read(&mut self, into: &mut [u8]) -> Result<(), Error> {
		if into.len() > self.data.len() - self.pos {
			self.touched_end = true;
			return Err("LazyInput: exhausted".into());
		}
		into.copy_from_slice(&self.data[self.pos..self.pos + into.len()]);
		self.pos += into.len();
		Ok(())
	}
}

/// What one `io::Read::read` call answers.
#[derive(Clone, Copy, Debug, PartialEq, Eq)]
pub enum ReadChoice {
	/// as many bytes as asked (the default)
	Full,
	/// one byte
	One,
	/// half of what was asked (at least one)
	Half,
	/// `ErrorKind::Interrupted` (must be retried by `read_exact`)
	Interrupted,
}

/// An `io::Read` whose every call is a choice point. Calls beyond the schedule answer `Full`.
pub struct ChunkReader<'a> {
	pub data: &'a [u8],
	pub pos: usize,
	pub schedule: &'a [(usize, ReadChoice)],
	pub calls: usize,
	/// answer of every call the schedule does not name
	pub default: ReadChoice,
}

impl<'a> ChunkReader<'a> {
	pub fn new(data: &'a [u8], schedule: &'a [(usize, ReadChoice)]) -> Self {
		ChunkReader { data, pos: 0, schedule, calls: 0, default: ReadChoice::Full }
	}
	/// a reader that hands out one byte per call
	pub fn trickle(data: &'a [u8]) -> Self {
		ChunkReader { data, pos: 0, schedule: &[], calls: 0, default: ReadChoice::One }
	}
}

impl io::Read for ChunkReader<'_> {
	fn read(&mut self, buf: &mut [u8]) -> io::Result<usize> {
		let call = self.calls;
		self.calls += 1;
		let choice =
			self.schedule.iter().find(|(c, _)| *c == call).map(|(_, x)| *x).unwrap_or(self.default);
		let avail = self.data.len() - self.pos;
		let want = buf.len().min(avail);
		let n = match choice {
			ReadChoice::Full => want,
			ReadChoice::One => want.min(1),
			ReadChoice::Half => want.min((buf.len() / 2).max(1)),
			ReadChoice::Interrupted => return Err(io::Error::from(io::ErrorKind::Interrupted)),
		};
		buf[..n].copy_from_slice(&self.data[self.pos..self.pos + n]);
		self.pos += n;
		Ok(n)
	}
}

#[derive(Clone, Copy, Debug, PartialEq, Eq)]
pub enum WriteChoice {
	Full,
	One,
	Half,
	Interrupted,
}

/// An `io::Write` whose every call is a choice point.
pub struct ShortWriter<'a> {
	pub out: Vec<u8>,
	pub schedule: &'a [(usize, WriteChoice)],
	pub calls: usize,
}

impl<'a> ShortWriter<'a> {
	pub fn new(schedule: &'a [(usize, WriteChoice)]) -> Self {
		ShortWriter { out: vec![], schedule, calls: 0 }
	}
}

impl io::Write for ShortWriter<'_> {
	fn write(&mut self, buf: &[u8]) -> io::Result<usize> {
		let call = self.calls;
		self.calls += 1;
		let choice =
			self.schedule.iter().find(|(c, _)| *c == call).map(|(_, x)| *x).unwrap_or(WriteChoice::Full);
		let n = match choice {
			WriteChoice::Full => buf.len(),
			WriteChoice::One => buf.len().min(1),
			WriteChoice::Half => buf.len().min((buf.len() / 2).max(1)),
			WriteChoice::Interrupted => return Err(io::Error::from(io::ErrorKind::Interrupted)),
		};
		self.out.extend_from_slice(&buf[..n]);
		Ok(n)
	}
	fn flush(&mut self) -> io::Result<()> {
		Ok(())
	}
}

/// One observable event at the bottom of an input stack.
#[derive(Clone, Debug, PartialEq, Eq)]
pub enum Ev {
	Descend,
	Ascend,
	Alloc(usize),
	Read(usize, bool),
	ReadByte(bool),
	Len,
}

/// A slice input that records every trait call that reaches it.
pub struct RecIn<'a> {
	pub data: &'a [u8],
	pub pos: usize,
	pub log: Vec<Ev>,
}

impl<'a> RecIn<'a> {
	pub fn new(data: &'a [u8]) -> Self {
		RecIn { data, pos: 0, log: vec![] }
	}
}

impl Input for RecIn<'_> {
	fn remaining_len(&mut self) -> Result<Option<usize>, Error> {
		self.log.push(Ev::Len);
		Ok(Some(self.data.len() - self.pos))
	}
	fn read(&mut self, into: &mut [u8]) -> Result<(), Error> {
		if into.len() > self.data.len() - self.pos {
			self.log.push(Ev::Read(into.len(), false));
			return Err("RecIn: exhausted".into());
		}
		into.copy_from_slice(&self.data[self.pos..self.pos + into.len()]);
		self.pos += into.len();
		self.log.push(Ev::Read(into.len(), true));
		Ok(())
	}
	fn read_byte(&mut self) -> Result<u8, Error> {
		if self.pos >= self.data.len() {
			self.log.push(Ev::ReadByte(false));
			return Err("RecIn: exhausted".into());
		}
		let b = self.data[self.pos];
		self.pos += 1;
		self.log.push(Ev::ReadByte(true));
		Ok(b)
	}
	fn descend_ref(&mut self) -> Result<(), Error> {
		self.log.push(Ev::Descend);
		Ok(())
	}
	fn ascend_ref(&mut self) {
		self.log.push(Ev::Ascend);
	}
	fn on_before_alloc_mem(&mut self, size: usize) -> Result<(), Error> {
		self.log.push(Ev::Alloc(size));
		Ok(())
	}
}

/// A fake input that "delivers" any number of bytes without touching memory: `read` succeeds and
/// leaves the buffer as is. Used to drive byte counters to large values.
pub struct Endless;

impl Input for Endless {
	fn remaining_len(&mut self) -> Result<Option<usize>, Error> {
		Ok(None)
	}
	fn read(&mut self, _into: &mut [u8]) -> Result<(), Error> {
		Ok(())
	}
}

//! C17 — invalid derive input is rejected at compile time, valid input compiles.
//!
//! Every program is compiled on its own with `rustc --emit=metadata` against the rlibs the harness
//! build has just produced from /repo's current tree.

use crate::common::*;
use refmodel::side::{enum_accepts, IndexSrc};
use serde_json::{json, Value as Json};
use std::{path::PathBuf, process::Command};

#[derive(Clone, Debug)]
pub struct Prog {
	pub name: String,
	pub src: String,
	pub expect_accept: bool,
	pub why: String,
}

const HEADER: &str = "#![allow(dead_code, unused_imports)]\nuse parity_scale_codec::{Encode, Decode, DecodeWithMemTracking, MaxEncodedLen, CompactAs, HasCompact, Compact};\n";

pub const SYMS: [IndexSrc; 16] = [
	IndexSrc::Implicit,
	IndexSrc::Skip,
	IndexSrc::Attr(0),
	IndexSrc::Attr(1),
	IndexSrc::Attr(2),
	IndexSrc::Attr(254),
	IndexSrc::Attr(255),
	IndexSrc::Attr(256),
	IndexSrc::Attr(300),
	IndexSrc::Discr(0),
	IndexSrc::Discr(1),
	IndexSrc::Discr(2),
	IndexSrc::Discr(254),
	IndexSrc::Discr(255),
	IndexSrc::Discr(256),
	IndexSrc::Discr(300),
];

/// What rustc itself assigns; `None` if the enum is invalid Rust whatever the derive does
/// (duplicate discriminants) — such programs are outside the property and are not generated.
fn rust_valid(srcs: &[IndexSrc]) -> bool {
	let mut cur: i64 = -1;
	let mut seen = std::collections::BTreeSet::new();
	for s in srcs {
		cur = match s {
			IndexSrc::Discr(d) => *d as i64,
			IndexSrc::Both(_, d) => *d as i64,
			_ => cur + 1,
		};
		if !seen.insert(cur) {
			return false;
		}
	}
	true
}

fn variant_src(i: usize, s: &IndexSrc) -> String {
	match s {
		IndexSrc::Implicit => format!("V{}", i),
		IndexSrc::Skip => format!("#[codec(skip)] V{}", i),
		IndexSrc::Attr(a) => format!("#[codec(index = {})] V{}", a, i),
		IndexSrc::Discr(d) => format!("V{} = {}", i, d),
		IndexSrc::Both(a, d) => format!("#[codec(index = {})] V{} = {}", a, i, d),
	}
}

fn sym_name(s: &IndexSrc) -> String {
	match s {
		IndexSrc::Implicit => "implicit".into(),
		IndexSrc::Skip => "skip".into(),
		IndexSrc::Attr(a) => format!("index={}", a),
		IndexSrc::Discr(d) => format!("discr={}", d),
		IndexSrc::Both(a, d) => format!("index={}+discr={}", a, d),
	}
}

pub fn enum_prog(srcs: &[IndexSrc]) -> Option<Prog> {
	if !rust_valid(srcs) {
		return None;
	}
	let body: Vec<String> = srcs.iter().enumerate().map(|(i, s)| variant_src(i, s)).collect();
	let name = format!("enum[{}]", srcs.iter().map(sym_name).collect::<Vec<_>>().join(", "));
	Some(Prog {
		name,
		src: format!("{}#[derive(Encode, Decode)]\npub enum E {{ {} }}\n", HEADER, body.join(", ")),
		expect_accept: enum_accepts(srcs),
		why: "variant indices (attribute > discriminant > position among non-skipped) must be <= 255 and distinct".into(),
	})
}

fn big_enum(n: usize, skip_every: Option<usize>) -> Prog {
	let mut body = vec![];
	let mut encodable = 0;
	for i in 0..n {
		if skip_every.map_or(false, |k| i % k == k - 1) {
			body.push(format!("#[codec(skip)] V{}", i));
		} else {
			body.push(format!("V{}", i));
			encodable += 1;
		}
	}
	Prog {
		name: format!("enum with {} variants ({} encodable)", n, encodable),
		src: format!("{}#[derive(Encode, Decode)]\npub enum E {{ {} }}\n", HEADER, body.join(", ")),
		expect_accept: encodable <= 256,
		why: "at most 256 encodable variants".into(),
	}
}

fn fixed(name: &str, accept: bool, why: &str, body: &str) -> Prog {
	Prog { name: name.into(), src: format!("{}{}\n", HEADER, body), expect_accept: accept, why: why.into() }
}

/// The finite list of attribute-conflict / union / CompactAs-shape cases, each paired with a
/// minimally different valid twin.
pub fn finite_cases() -> Vec<Prog> {
	let ex = "mutually exclusive field attributes";
	vec![
		fixed("struct compact+skip", false, ex, "#[derive(Encode, Decode)] pub struct S { #[codec(compact)] #[codec(skip)] a: u32, b: u8 }"),
		fixed("struct compact (twin)", true, ex, "#[derive(Encode, Decode)] pub struct S { #[codec(compact)] a: u32, b: u8 }"),
		fixed("struct skip (twin)", true, ex, "#[derive(Encode, Decode)] pub struct S { #[codec(skip)] a: u32, b: u8 }"),
		fixed("struct compact+encoded_as", false, ex, "#[derive(Encode, Decode)] pub struct S { #[codec(compact)] #[codec(encoded_as = \"<u32 as HasCompact>::Type\")] a: u32, b: u8 }"),
		fixed("struct encoded_as (twin)", true, ex, "#[derive(Encode, Decode)] pub struct S { #[codec(encoded_as = \"<u32 as HasCompact>::Type\")] a: u32, b: u8 }"),
		fixed("struct encoded_as+skip", false, ex, "#[derive(Encode, Decode)] pub struct S { #[codec(encoded_as = \"<u32 as HasCompact>::Type\")] #[codec(skip)] a: u32, b: u8 }"),
		fixed("single-field struct compact+encoded_as", false, ex, "#[derive(Encode, Decode)] pub struct S { #[codec(compact)] #[codec(encoded_as = \"<u32 as HasCompact>::Type\")] a: u32 }"),
		fixed("single-field struct compact (twin)", true, ex, "#[derive(Encode, Decode)] pub struct S { #[codec(compact)] a: u32 }"),
		fixed("single-field tuple struct compact+skip", false, ex, "#[derive(Encode, Decode)] pub struct S(#[codec(compact)] #[codec(skip)] u32);"),
		fixed("single-field tuple struct encoded_as+skip", false, ex, "#[derive(Encode, Decode)] pub struct S(#[codec(encoded_as = \"<u32 as HasCompact>::Type\")] #[codec(skip)] u32);"),
		fixed("single-field tuple struct skip (twin)", true, ex, "#[derive(Encode, Decode)] pub struct S(#[codec(skip)] u32);"),
		fixed("enum variant field compact+skip", false, ex, "#[derive(Encode, Decode)] pub enum E { A { #[codec(compact)] #[codec(skip)] a: u32 }, B }"),
		fixed("enum variant field compact (twin)", true, ex, "#[derive(Encode, Decode)] pub enum E { A { #[codec(compact)] a: u32 }, B }"),
		fixed("enum tuple variant encoded_as+compact", false, ex, "#[derive(Encode, Decode)] pub enum E { A(#[codec(compact)] #[codec(encoded_as = \"<u32 as HasCompact>::Type\")] u32), B }"),
		fixed("compact and skip in one attribute", false, ex, "#[derive(Encode, Decode)] pub struct S { #[codec(compact, skip)] a: u32, b: u8 }"),
		fixed("union", false, "unions are not supported", "#[derive(Encode, Decode)] pub union U { a: u32, b: u8 }"),
		fixed("union (Encode only)", false, "unions are not supported", "#[derive(Encode)] pub union U { a: u32, b: u8 }"),
		fixed("struct with the union's fields (twin)", true, "unions are not supported", "#[derive(Encode, Decode)] pub struct U { a: u32, b: u8 }"),
		fixed("CompactAs on enum", false, "CompactAs needs a struct with one non-skipped field", "#[derive(Encode, Decode, CompactAs)] pub enum E { A(u32) }"),
		fixed("CompactAs on unit struct", false, "CompactAs needs a struct with one non-skipped field", "#[derive(Encode, Decode, CompactAs)] pub struct S;"),
		fixed("CompactAs on two non-skipped fields", false, "CompactAs needs a struct with one non-skipped field", "#[derive(Encode, Decode, CompactAs)] pub struct S(u32, u8);"),
		fixed("CompactAs on two named non-skipped fields", false, "CompactAs needs a struct with one non-skipped field", "#[derive(Encode, Decode, CompactAs)] pub struct S { a: u32, b: u8 }"),
		fixed("CompactAs on union", false, "CompactAs needs a struct with one non-skipped field", "#[derive(CompactAs)] pub union U { a: u32, b: u8 }"),
		fixed("CompactAs on one field (twin)", true, "CompactAs needs a struct with one non-skipped field", "#[derive(Encode, Decode, CompactAs)] pub struct S(u32);"),
		fixed("CompactAs on one non-skipped + one skipped field (twin)", true, "CompactAs needs a struct with one non-skipped field", "#[derive(Encode, Decode, CompactAs)] pub struct S { a: u32, #[codec(skip)] b: u8 }"),
		fixed("CompactAs on all-skipped fields", false, "CompactAs needs a struct with one non-skipped field", "#[derive(Encode, Decode, CompactAs)] pub struct S { #[codec(skip)] a: u32, #[codec(skip)] b: u8 }"),
		// valid definitions whose field types support the derived traits must compile
		fixed("generic compact field with MaxEncodedLen", true, "valid input compiles", "#[derive(Encode, Decode, MaxEncodedLen)] pub struct S<T> { #[codec(compact)] a: T, b: u8 }\npub fn f() -> usize { <S<u32> as MaxEncodedLen>::max_encoded_len() }"),
		fixed("compact CompactAs field with MaxEncodedLen", true, "valid input compiles", "#[derive(Encode, Decode, CompactAs, MaxEncodedLen, Default)] pub struct A(u32);\n#[derive(Encode, Decode, MaxEncodedLen)] pub struct S { #[codec(compact)] a: A }"),
		fixed("all derives on a generic enum", true, "valid input compiles", "#[derive(Encode, Decode, DecodeWithMemTracking, MaxEncodedLen)] pub enum E<T> { A(T), #[codec(skip)] B(T), C { #[codec(compact)] x: u64 } }\npub fn f() -> usize { <E<u8> as MaxEncodedLen>::max_encoded_len() }"),
		fixed("all variants skipped", true, "valid input compiles", "#[derive(Encode, Decode, MaxEncodedLen)] pub enum E { #[codec(skip)] A, #[codec(skip)] B(u8) }"),
		fixed("empty enum", true, "valid input compiles", "#[derive(Encode, Decode)] pub enum E {}"),
		fixed("index attribute on a non-unit variant with repr", true, "valid input compiles", "#[derive(Encode, Decode)] #[repr(u16)] pub enum E { #[codec(index = 9)] A(u8) = 300, B { x: u8 } = 2 }"),
		fixed("index + discriminant: attribute wins (valid)", true, "attribute > discriminant", "#[derive(Encode, Decode)] pub enum E { #[codec(index = 3)] A = 1, B }"),
		fixed("index + discriminant: attribute collides", false, "attribute > discriminant", "#[derive(Encode, Decode)] pub enum E { #[codec(index = 1)] A = 7, B = 1 }"),
		fixed("index + discriminant: discriminant would collide but attribute wins", true, "attribute > discriminant", "#[derive(Encode, Decode)] pub enum E { #[codec(index = 4)] A = 1, B, C }"),
		fixed("invalid attribute on variant", false, "unknown attribute", "#[derive(Encode, Decode)] pub enum E { #[codec(compact)] A, B }"),
		fixed("invalid attribute on field", false, "unknown attribute", "#[derive(Encode, Decode)] pub struct S { #[codec(index = 1)] a: u8 }"),
	]
}

/// Every struct shape of up to three fields over {same type, another type} x {encoded, skipped}, tuple and
/// named, deriving `CompactAs`: valid exactly when one field is not skipped (the inner-type conversions of
/// the generated code type-check for any single field type used here).
pub fn compact_as_shapes() -> Vec<Prog> {
	let why = "CompactAs needs a struct with exactly one non-skipped field";
	let mut out = vec![];
	for named in [false, true] {
		for n in 0..=3usize {
			for code in 0..4usize.pow(n as u32) {
				let mut fields = vec![];
				let mut encoded = 0;
				let mut c = code;
				for i in 0..n {
					let (ty, skip) = ([("u32", false), ("u32", true), ("u8", false), ("u8", true)])[c % 4];
					c /= 4;
					if !skip {
						encoded += 1;
					}
					let attr = if skip { "#[codec(skip)] " } else { "" };
					fields.push(if named { format!("{}f{}: {}", attr, i, ty) } else { format!("{}{}", attr, ty) });
				}
				let body = if named { format!("pub struct S {{ {} }}", fields.join(", ")) } else { format!("pub struct S({});", fields.join(", ")) };
				out.push(Prog {
					name: format!("CompactAs on {} struct [{}]", if named { "named" } else { "tuple" }, fields.join(", ")),
					src: format!("{}#[derive(Encode, Decode, CompactAs)] {}\n", HEADER, body),
					expect_accept: encoded == 1,
					why: why.into(),
				});
			}
		}
	}
	out
}

/// Every pair of field attributes out of {compact, encoded_as, skip} on the first field of a struct with
/// one, two or three fields (tuple and named) and of an enum variant: a pair of different attributes is a
/// conflict wherever it stands, a single attribute is valid.
pub fn attribute_pairs() -> Vec<Prog> {
	let attrs = [("compact", "#[codec(compact)]"), ("encoded_as", "#[codec(encoded_as = \"<u32 as HasCompact>::Type\")]"), ("skip", "#[codec(skip)]")];
	let mut out = vec![];
	for (an, a) in attrs {
		for (bn, b) in attrs.iter().map(|x| (Some(x.0), x.1)).chain([(None, "")]) {
			if bn == Some(an) {
				continue;
			}
			let valid = bn.is_none();
			for extra in 0..=2usize {
				for pos in 0..=extra {
					for kind in ["tuple", "named", "variant-tuple", "variant-named"] {
						let named = kind.ends_with("named");
						let mut fields = vec![];
						for i in 0..=extra {
							let at = if i == pos { format!("{} {} ", a, b) } else { String::new() };
							fields.push(if named { format!("{}f{}: u32", at, i) } else { format!("{}u32", at) });
						}
						let body = match kind {
							"tuple" => format!("pub struct S({});", fields.join(", ")),
							"named" => format!("pub struct S {{ {} }}", fields.join(", ")),
							"variant-tuple" => format!("pub enum E {{ A, B({}) }}", fields.join(", ")),
							_ => format!("pub enum E {{ A, B {{ {} }} }}", fields.join(", ")),
						};
						out.push(Prog {
							name: format!("{} with {}{} on field {} of {}", kind, an, bn.map(|x| format!("+{}", x)).unwrap_or_default(), pos, extra + 1),
							src: format!("{}#[derive(Encode, Decode)] {}\n", HEADER, body),
							expect_accept: valid,
							why: "mutually exclusive field attributes".into(),
						});
					}
				}
			}
		}
	}
	out
}

pub fn corpus(tier: Tier) -> Vec<Prog> {
	let mut out = vec![];
	let max = if tier.thorough() { 3 } else { 2 };
	for a in SYMS {
		out.extend(enum_prog(&[a]));
		for b in SYMS {
			out.extend(enum_prog(&[a, b]));
			if max >= 3 {
				for c in SYMS {
					out.extend(enum_prog(&[a, b, c]));
				}
			}
		}
	}
	if !tier.thorough() {
		// a slice of the three-variant space in the quick tier: patterns around a skipped middle
		for a in [IndexSrc::Implicit, IndexSrc::Attr(1), IndexSrc::Discr(2), IndexSrc::Attr(255)] {
			for c in [IndexSrc::Implicit, IndexSrc::Attr(1), IndexSrc::Discr(1), IndexSrc::Attr(256)] {
				out.extend(enum_prog(&[a, IndexSrc::Skip, c]));
				out.extend(enum_prog(&[a, IndexSrc::Implicit, c]));
			}
		}
	}
	for both in [IndexSrc::Both(3, 1), IndexSrc::Both(1, 3), IndexSrc::Both(256, 1), IndexSrc::Both(1, 256), IndexSrc::Both(0, 0)] {
		for other in [IndexSrc::Implicit, IndexSrc::Attr(1), IndexSrc::Discr(5), IndexSrc::Skip] {
			out.extend(enum_prog(&[both, other]));
			out.extend(enum_prog(&[other, both]));
		}
	}
	out.push(big_enum(256, None));
	out.push(big_enum(257, None));
	out.push(big_enum(257, Some(257)));
	out.push(big_enum(300, Some(5)));
	out.push(big_enum(400, Some(3)));
	out.push(big_enum(400, Some(2)));
	out.extend(finite_cases());
	out.extend(compact_as_shapes());
	out.extend(attribute_pairs());
	out
}

pub struct Toolchain {
	pub codec_rlib: String,
	pub deps_dir: String,
	pub work: PathBuf,
}

/// Ask cargo where the artefacts of the harness build are (no-op build when fresh).
pub fn toolchain() -> Result<Toolchain, String> {
	let out = Command::new("cargo")
		.args(["build", "--release", "--offline", "-p", "subjects", "--message-format=json"])
		.current_dir(format!("{}/harness", verif_root()))
		.env("RUSTFLAGS", "--cfg parity_scale_codec_verif")
		.env("CARGO_TARGET_DIR", std::env::var("CARGO_TARGET_DIR").unwrap_or_else(|_| format!("{}/target/harness", verif_root())))
		.output()
		.map_err(|e| format!("cannot run cargo: {}", e))?;
	if !out.status.success() {
		return Err(format!("cargo build failed: {}", String::from_utf8_lossy(&out.stderr)));
	}
	let mut rlib = None;
	for line in String::from_utf8_lossy(&out.stdout).lines() {
		let Ok(j) = serde_json::from_str::<Json>(line) else { continue };
		if j["reason"] == "compiler-artifact" && j["target"]["name"] == "parity_scale_codec" {
			for f in j["filenames"].as_array().into_iter().flatten() {
				if let Some(s) = f.as_str() {
					if s.ends_with(".rlib") {
						rlib = Some(s.to_string());
					}
				}
			}
		}
	}
	let codec_rlib = rlib.ok_or("parity_scale_codec rlib not found in cargo's output")?;
	let deps_dir = PathBuf::from(&codec_rlib).parent().unwrap().to_string_lossy().to_string();
	let work = PathBuf::from(format!("{}/target/c17/{}", verif_root(), std::process::id()));
	std::fs::create_dir_all(&work).map_err(|e| e.to_string())?;
	Ok(Toolchain { codec_rlib, deps_dir, work })
}

/// Compile one program; returns (accepted, first error line).
pub fn compile(tc: &Toolchain, idx: usize, p: &Prog) -> Result<(bool, String), String> {
	let file = tc.work.join(format!("p{}.rs", idx));
	std::fs::write(&file, &p.src).map_err(|e| e.to_string())?;
	let out = Command::new("rustc")
		.args(["--edition", "2021", "--crate-type", "lib", "--emit=metadata", "--cap-lints", "allow", "--crate-name"])
		.arg(format!("p{}", idx))
		.arg("-L")
		.arg(format!("dependency={}", tc.deps_dir))
		.arg("--extern")
		.arg(format!("parity_scale_codec={}", tc.codec_rlib))
		.arg("--out-dir")
		.arg(&tc.work)
		.arg(&file)
		.env("CARGO_MANIFEST_DIR", format!("{}/harness/subjects", verif_root()))
		.env("CARGO", "cargo")
		.output()
		.map_err(|e| format!("cannot run rustc: {}", e))?;
	let stderr = String::from_utf8_lossy(&out.stderr).to_string();
	let first_err = stderr.lines().find(|l| l.starts_with("error")).unwrap_or("").to_string();
	let _ = std::fs::remove_file(&file);
	let _ = std::fs::remove_file(tc.work.join(format!("libp{}.rmeta", idx)));
	if first_err.contains("can't find crate") || first_err.contains("found possibly newer version") || first_err.contains("E0463") {
		return Err(format!("toolchain problem (machinery): {}", first_err));
	}
	Ok((out.status.success(), first_err))
}

pub fn check_prog(tc: &Toolchain, idx: usize, p: &Prog) -> Result<Result<&'static str, String>, String> {
	let (accepted, err) = compile(tc, idx, p)?;
	Ok(match (accepted, p.expect_accept) {
		(true, true) => Ok("compiles"),
		(false, false) =>
			if err.is_empty() {
				Err("rejected without an error diagnostic".into())
			} else {
				Ok("rejected-with-diagnostic")
			},
		(true, false) => Err(format!("invalid definition compiles without a diagnostic ({})", p.why)),
		(false, true) => Err(format!("valid definition is rejected: {}", err)),
	})
}

pub fn run(tier: Tier) -> Report {
	let mut rep = Report::new("C17", tier);
	{
		// the generated corpus consists of valid definitions only: if it no longer compiles, the derive
		// macros reject valid input (and the layout of those definitions cannot be what they declare)
		let rej = corpus_rejections();
		if !rej.is_empty() {
			let mut acc = Acc::default();
			for (def, err) in rej {
				acc.evaluations += 1;
				acc.violate(Violation {
					property: "C17".into(),
					sub: "C17.corpus".into(),
					key: "C17|generated-valid-definition-rejected".into(),
					detail: format!("a valid generated definition no longer compiles: `{}`: {}", def, err),
					case: json!({"sub": "C17.corpus", "definition": def, "error": err}),
				});
			}
			rep.part("corpus build", "the generated corpus of valid type definitions must compile against the current tree", acc);
		}
	}
	let tc = match toolchain() {
		Ok(t) => t,
		Err(e) => {
			eprintln!("[C17] machinery: {}", e);
			std::process::exit(2);
		},
	};
	let progs = corpus(tier);
	let idx: Vec<usize> = (0..progs.len()).collect();
	let machinery = std::sync::Mutex::new(Vec::<String>::new());
	let acc = par(&idx, |i, acc| {
		let p = &progs[*i];
		acc.evaluations += 1;
		acc.transitions += 1;
		match check_prog(&tc, *i, p) {
			Err(m) => machinery.lock().unwrap().push(m),
			Ok(Ok(class)) => {
				acc.states += 1;
				acc.traces += 1;
				if p.src.matches("V").count() >= 2 || !p.name.starts_with("enum[") {
					acc.nontrivial += 1;
				}
				acc.outcome(class);
				if *i % 97 == 5 {
					acc.sample(json!({"program": p.name, "expected": if p.expect_accept { "compiles" } else { "rejected" }, "observed": class}));
				}
			},
			Ok(Err(detail)) => acc.violate(Violation {
				property: "C17".into(),
				sub: "C17.prog".into(),
				key: format!("C17|{}", if p.name.starts_with("enum[") { "enum-index-rule" } else { &p.name }),
				detail: format!("{}: {}", p.name, detail),
				case: json!({"sub": "C17.prog", "name": p.name, "src": p.src, "expect_accept": p.expect_accept, "why": p.why}),
			}),
		}
	});
	let _ = std::fs::remove_dir_all(&tc.work);
	let m = machinery.into_inner().unwrap();
	if !m.is_empty() {
		eprintln!("[C17] machinery: {}", m[0]);
		std::process::exit(2);
	}
	let n = progs.len();
	rep.part("programs", "every generated program compiled on its own (rustc --emit=metadata against the freshly built rlibs): accept/reject equals the reference predicate, rejected programs carry an error diagnostic", acc);
	rep.acc.add("programs", n as u64);
	rep.rule = "all enum definitions with up to 2 (quick) / 3 (thorough) unit variants whose index source is one of 16 symbols {implicit, skip, index=v, discriminant=v; v in 0,1,2,254,255,256,300} that are valid Rust, \
		plus index+discriminant combinations, 256/257/300/400-variant enums with and without skips, and the finite list of attribute-conflict / union / CompactAs-shape cases each paired with a valid twin. non-trivial = two or more variants, or a non-enum case"
		.into();
	rep.bounds = json!({"programs": n, "variants_max": if tier.thorough() { 3 } else { 2 }, "symbols": 16});
	rep.assumptions = vec!["enum definitions that rustc itself rejects (duplicate discriminants) are outside the property and are not generated".into()];
	rep
}

pub fn replay(case: &Json) -> Option<String> {
	let tc = toolchain().ok()?;
	let p = Prog {
		name: case["name"].as_str().unwrap().into(),
		src: case["src"].as_str().unwrap().into(),
		expect_accept: case["expect_accept"].as_bool().unwrap(),
		why: case["why"].as_str().unwrap_or("").into(),
	};
	let r = check_prog(&tc, 0, &p);
	let _ = std::fs::remove_dir_all(&tc.work);
	match r {
		Ok(Ok(_)) => None,
		Ok(Err(d)) => Some(d),
		Err(m) => Some(format!("machinery: {}", m)),
	}
}

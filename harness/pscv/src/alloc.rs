//! Counting global allocator: per-thread peak of live bytes and largest single request during a
//! measured region. Requests above the guard are refused (recorded first), so a runaway
//! allocation aborts the worker process instead of getting the machine OOM-killed.

use std::{
	alloc::{GlobalAlloc, Layout, System},
	cell::Cell,
	sync::atomic::{AtomicUsize, Ordering},
};

pub struct Counting;

thread_local! {
	static ON: Cell<bool> = const { Cell::new(false) };
	static LIVE: Cell<isize> = const { Cell::new(0) };
	static PEAK: Cell<isize> = const { Cell::new(0) };
	static LARGEST: Cell<usize> = const { Cell::new(0) };
	static TOTAL: Cell<usize> = const { Cell::new(0) };
	static CALLS: Cell<usize> = const { Cell::new(0) };
}

/// Largest request refused by the guard (process-wide), 0 if none.
pub static REFUSED: AtomicUsize = AtomicUsize::new(0);
pub const GUARD: usize = 1 << 30;

unsafe impl GlobalAlloc for Counting {
	unsafe fn alloc(&self, l: Layout) -> *mut u8 {
		if ON.with(|o| o.get()) {
			if l.size() > GUARD || LIVE.with(|x| x.get()) > 4 * GUARD as isize {
				REFUSED.fetch_max(l.size(), Ordering::SeqCst);
				// make the refusal visible even though the process is about to abort
				let msg = format_refusal(l.size());
				libc::write(1, msg.as_ptr() as *const _, msg.len());
				return std::ptr::null_mut();
			}
			note_alloc(l.size());
		}
		System.alloc(l)
	}
	unsafe fn dealloc(&self, p: *mut u8, l: Layout) {
		if ON.with(|o| o.get()) {
			LIVE.with(|x| x.set(x.get() - l.size() as isize));
		}
		System.dealloc(p, l)
	}
	unsafe fn realloc(&self, p: *mut u8, l: Layout, new: usize) -> *mut u8 {
		if ON.with(|o| o.get()) {
			if new > GUARD {
				REFUSED.fetch_max(new, Ordering::SeqCst);
				let msg = format_refusal(new);
				libc::write(1, msg.as_ptr() as *const _, msg.len());
				return std::ptr::null_mut();
			}
			LIVE.with(|x| x.set(x.get() - l.size() as isize));
			note_alloc(new);
		}
		System.realloc(p, l, new)
	}
}

/// Fixed-size, allocation-free message `REFUSED <n>\n`.
fn format_refusal(n: usize) -> [u8; 32] {
	let mut buf = [b' '; 32];
	buf[..8].copy_from_slice(b"REFUSED ");
	let mut digits = [0u8; 20];
	let mut k = 0;
	let mut x = n;
	loop {
		digits[k] = b'0' + (x % 10) as u8;
		k += 1;
		x /= 10;
		if x == 0 {
			break;
		}
	}
	for i in 0..k {
		buf[8 + i] = digits[k - 1 - i];
	}
	buf[31] = b'\n';
	buf
}

fn note_alloc(size: usize) {
	LIVE.with(|x| {
		let v = x.get() + size as isize;
		x.set(v);
		PEAK.with(|p| {
			if v > p.get() {
				p.set(v)
			}
		});
	});
	LARGEST.with(|x| {
		if size > x.get() {
			x.set(size)
		}
	});
	TOTAL.with(|x| x.set(x.get() + size));
	CALLS.with(|x| x.set(x.get() + 1));
}

#[derive(Clone, Copy, Debug, Default)]
pub struct Usage {
	pub peak: usize,
	pub largest: usize,
	pub total: usize,
	pub calls: usize,
	/// bytes allocated inside the measured region that are still live when it ends
	pub live_end: isize,
}

/// Measure the allocations of `f` on this thread.
pub fn measure<R>(f: impl FnOnce() -> R) -> (R, Usage) {
	LIVE.with(|x| x.set(0));
	PEAK.with(|x| x.set(0));
	LARGEST.with(|x| x.set(0));
	TOTAL.with(|x| x.set(0));
	CALLS.with(|x| x.set(0));
	ON.with(|o| o.set(true));
	let r = f();
	ON.with(|o| o.set(false));
	let u = Usage {
		peak: PEAK.with(|x| x.get()).max(0) as usize,
		largest: LARGEST.with(|x| x.get()),
		total: TOTAL.with(|x| x.get()),
		calls: CALLS.with(|x| x.get()),
		live_end: LIVE.with(|x| x.get()),
	};
	(r, u)
}

//! C01 — encoded bytes conform to the SCALE wire format.

use crate::{common::*, oracle::*};
use refmodel::{domain, Value};
use serde_json::{json, Value as Json};
use subjects::vt::VT;

pub fn bound(tier: Tier) -> domain::Bound {
	if tier.thorough() {
		domain::Bound::thorough()
	} else {
		domain::Bound::quick()
	}
}

fn one(vt: &VT, shape: &refmodel::Shape, v: &Value, acc: &mut Acc) {
	acc.evaluations += 1;
	acc.transitions += 1;
	match check_encode(vt, shape, v) {
		Ok(Some(bytes)) => {
			acc.traces += 1;
			acc.states += 1;
			if !bytes.is_empty() {
				acc.nontrivial += 1;
			}
			acc.outcome(&format!("len{}", bytes.len().min(20)));
			if acc.evaluations % 5003 == 1 {
				acc.sample(json!({"type": vt.name, "value": value_short(v), "encoded": hex(&bytes)}));
			}
		},
		Ok(None) => acc.outcome("no-encoding"),
		Err(detail) => acc.violate(Violation {
			property: "C01".into(),
			sub: "C01.enc".into(),
			key: format!("C01|{}|encode", vt.name),
			detail,
			case: value_case("C01.enc", vt, v),
		}),
	}
}

pub fn run(tier: Tier, reg: &[VT]) -> Report {
	let mut rep = Report::new("C01", tier);
	let b = bound(tier);
	let acc = par(reg, |vt, acc| {
		heartbeat(vt.name);
		let shape = (vt.shape)();
		// the 2→4 byte count-prefix boundary: every type in the thorough tier, core types always
		let mut bb = b.clone();
		bb.big_fills = b.big_fills || vt.core;
		for v in domain::values(&shape, &bb) {
			one(vt, &shape, &v, acc);
		}
	});
	rep.part("values", "every registry type x every value of its boundary domain, bytes == reference encoding", acc);

	// zero-sized elements make huge element counts representable: cross the 4→5 byte prefix
	let big: Vec<u64> =
		if tier.thorough() { vec![(1 << 30) - 1, 1 << 30, u32::MAX as u64] } else { vec![(1 << 30) - 1, 1 << 30] };
	let vt = find_vt(reg, "Vec<()>");
	let items: Vec<u64> = big;
	let acc = par(&items, |n, acc| {
		let shape = (vt.shape)();
		one(vt, &shape, &Value::Rep(*n), acc);
	});
	rep.part("huge-counts", "Vec<()> with 2^30-1, 2^30 (and 2^32-1 in the thorough tier) elements", acc);

	if tier.thorough() {
		// every 32-bit pattern through the fixed-width primitives (allocation-free typed path)
		let blocks: Vec<u32> = (0..4096).collect();
		let acc = par(&blocks, |blk, acc| {
			use parity_scale_codec::Encode;
			let lo = (*blk as u64) << 20;
			let mut bad: Option<(u32, &'static str)> = None;
			for x in lo..lo + (1 << 20) {
				let x = x as u32;
				let want = x.to_le_bytes();
				if !x.using_encoded(|e| e == want) {
					bad = Some((x, "u32"));
				}
				if !(x as i32).using_encoded(|e| e == want) {
					bad = Some((x, "i32"));
				}
				if !f32::from_bits(x).using_encoded(|e| e == want) {
					bad = Some((x, "f32"));
				}
			}
			acc.evaluations += 3 << 20;
			acc.states += 3 << 20;
			acc.traces += 3 << 20;
			acc.transitions += 3 << 20;
			acc.nontrivial += 3 << 20;
			acc.outcome("32-bit-block");
			if let Some((x, ty)) = bad {
				acc.violate(Violation {
					property: "C01".into(),
					sub: "C01.enc".into(),
					key: format!("C01|{}|encode", ty),
					detail: format!("{} bit pattern {:08x} is not encoded as its little-endian bytes", ty, x),
					case: json!({"sub": "C01.enc", "type": ty, "value": if ty == "u32" { json!({"u": x.to_string()}) } else if ty == "i32" { json!({"i": (x as i32).to_string()}) } else { json!({"f32": x}) }}),
				});
			}
		});
		rep.part("every 32-bit pattern", "all 2^32 bit patterns of u32, i32 and f32: using_encoded == little-endian bytes", acc);
	}
	rep.rule = "odometer enumeration of the boundary domain (DESIGN.md A.1) of every registered type; a case is (type, value); \
		non-trivial = the encoding is non-empty; states = cases whose bytes were compared with the reference encoder"
		.into();
	rep.bounds = json!({"types": reg.len(), "seq_len": b.seq_len, "cap_per_type": b.cap, "full16": b.full16});
	rep.assumptions = vec![
		"the reference encoder (refmodel, validated against the repository's pinned byte vectors) is the SCALE specification".into(),
		"64/128-bit integers and floats are covered at boundary and lane-coded values only".into(),
	];
	rep
}

pub fn replay(reg: &[VT], case: &Json) -> Option<String> {
	let vt = find_vt(reg, case["type"].as_str().unwrap());
	let v = value_from_json(&case["value"]);
	check_encode(vt, &(vt.shape)(), &v).err()
}

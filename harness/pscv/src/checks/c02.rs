//! C02 — decode(encode(v)) == v, consuming exactly the encoding.

use crate::{common::*, oracle::*};
use parity_scale_codec::{Decode, Encode};
use refmodel::{domain, ref_enc, Shape, Value};
use serde_json::{json, Value as Json};
use subjects::{drivers::Twin, vt::VT};

pub const SUFFIXES: [&[u8]; 4] = [&[], &[0x00], &[0xff], &[1, 2, 3]];

pub fn roundtrip(vt: &VT, shape: &Shape, v: &Value, suffix: &[u8]) -> Result<Option<usize>, String> {
	if ref_enc(shape, v).is_err() {
		return Ok(None); // skipped variant: no encoding by design
	}
	let mut enc = guarded(|| (vt.encode)(v)).map_err(|p| format!("encode panicked: {}", p))?;
	let n = enc.len();
	enc.extend_from_slice(suffix);
	let r = guarded(|| (vt.decode)(&enc)).map_err(|p| format!("decode panicked: {}", p))?;
	match r {
		Err(e) => Err(format!("decode of own encoding {} failed: {}", hex(&enc), e)),
		Ok(d) => {
			if d.consumed != n {
				return Err(format!("consumed {} of an encoding of {} bytes (suffix {})", d.consumed, n, hex(suffix)));
			}
			if shape.normalize(&d.value) != shape.normalize(v) {
				return Err(format!("round trip changed the value: {} -> {}", value_short(v), value_short(&d.value)));
			}
			// the same bytes arriving one at a time through a reader (short encodings only)
			if enc.len() <= 96 {
				let mut tr = subjects::inputs::ChunkReader::trickle(&enc);
				let r = guarded(|| (vt.decode_io)(&mut tr)).map_err(|p| format!("decode from a one-byte-at-a-time reader panicked: {}", p))?;
				match r {
					Ok(v2) =>
						if tr.pos != n || shape.normalize(&v2) != shape.normalize(v) {
							return Err(format!(
								"round trip through a one-byte-at-a-time reader: {} -> {} consuming {} of {}",
								value_short(v),
								value_short(&v2),
								tr.pos,
								n
							));
						},
					Err(e) => return Err(format!("decode of own encoding from a one-byte-at-a-time reader failed: {}", e)),
				}
			}
			Ok(Some(n))
		},
	}
}

/// Element types of the length sweep.
pub trait SweepElem: Sized + Clone + Encode + Decode + Sync {
	fn nth(i: usize) -> Self;
	fn same(&self, o: &Self) -> bool;
}
macro_rules! sweep_int {
	($($t:ty),*) => {$(
		impl SweepElem for $t {
			fn nth(i: usize) -> Self { (i as u128).wrapping_mul(0x9e37_79b9_7f4a_7c15_f39c_c060_5ced_c835).wrapping_add(0x0102_0304_0506_0708_090a_0b0c_0d0e_0f10) as $t ^ (i as $t) }
			fn same(&self, o: &Self) -> bool { self == o }
		}
	)*}
}
sweep_int!(u8, u16, u32, u64, u128, i8, i16, i32, i64, i128);
impl SweepElem for f32 {
	fn nth(i: usize) -> Self {
		// every fourth element is a NaN with a position-dependent payload
		if i % 4 == 3 {
			f32::from_bits(0x7fc0_0000 | (i as u32 & 0x3f_ffff) | 1)
		} else {
			f32::from_bits(0x3f80_0000u32.wrapping_add(i as u32 * 7))
		}
	}
	fn same(&self, o: &Self) -> bool {
		self.to_bits() == o.to_bits()
	}
}
impl SweepElem for f64 {
	fn nth(i: usize) -> Self {
		if i % 4 == 3 {
			f64::from_bits(0x7ff8_0000_0000_0000 | i as u64 | 1)
		} else {
			f64::from_bits(0x3ff0_0000_0000_0000u64.wrapping_add(i as u64 * 7))
		}
	}
	fn same(&self, o: &Self) -> bool {
		self.to_bits() == o.to_bits()
	}
}
impl SweepElem for Option<u8> {
	fn nth(i: usize) -> Self {
		if i % 3 == 0 {
			None
		} else {
			Some(i as u8)
		}
	}
	fn same(&self, o: &Self) -> bool {
		self == o
	}
}
impl SweepElem for String {
	fn nth(i: usize) -> Self {
		match i % 3 {
			0 => String::new(),
			1 => format!("{}", i),
			_ => "é".to_string(),
		}
	}
	fn same(&self, o: &Self) -> bool {
		self == o
	}
}
impl SweepElem for (u8, u16) {
	fn nth(i: usize) -> Self {
		(i as u8, (i * 257) as u16)
	}
	fn same(&self, o: &Self) -> bool {
		self == o
	}
}
impl<T: SweepElem> SweepElem for Twin<T> {
	fn nth(i: usize) -> Self {
		Twin(T::nth(i))
	}
	fn same(&self, o: &Self) -> bool {
		self.0.same(&o.0)
	}
}
impl SweepElem for bool {
	fn nth(i: usize) -> Self {
		i % 3 == 1
	}
	fn same(&self, o: &Self) -> bool {
		self == o
	}
}

pub const CHUNK_BYTES: usize = 16 * 1024;

pub fn sweep_lens(size: usize, tier: Tier) -> Vec<usize> {
	let chunk = CHUNK_BYTES / size.max(1);
	if tier.thorough() {
		(0..=3 * chunk + 1).collect()
	} else {
		let mut v = vec![0, 1, 2];
		for m in 1..=3 {
			v.extend_from_slice(&[m * chunk - 1, m * chunk, m * chunk + 1]);
		}
		v
	}
}

fn sweep_one<T: SweepElem>(name: &str, n: usize, master: &[T], suffix: &[u8]) -> Result<(), String> {
	let v: Vec<T> = master[..n].to_vec();
	let mut enc = guarded(|| v.encode()).map_err(|p| format!("encode panicked: {}", p))?;
	let len = enc.len();
	enc.extend_from_slice(suffix);
	let mut s = &enc[..];
	let d = guarded(|| Vec::<T>::decode(&mut s)).map_err(|p| format!("decode panicked: {}", p))?;
	let consumed = enc.len() - s.len();
	match d {
		Err(e) => Err(format!("Vec<{}> of {} elements: decode of own encoding failed: {}", name, n, e)),
		Ok(d) => {
			if consumed != len {
				return Err(format!("Vec<{}> of {} elements: consumed {} of {}", name, n, consumed, len));
			}
			if d.len() != n {
				return Err(format!("Vec<{}> of {} elements: decoded {} elements", name, n, d.len()));
			}
			for i in 0..n {
				if !d[i].same(&v[i]) {
					return Err(format!("Vec<{}> of {} elements: element {} changed in the round trip", name, n, i));
				}
			}
			Ok(())
		},
	}
}

pub fn sweep<T: SweepElem>(name: &'static str, tier: Tier, only: Option<usize>) -> Acc {
	let lens = match only {
		Some(n) => vec![n],
		None => sweep_lens(std::mem::size_of::<T>(), tier),
	};
	let max = *lens.iter().max().unwrap();
	let master: Vec<T> = (0..max).map(T::nth).collect();
	par(&lens, |n, acc| {
		let suffix: &[u8] = if n % 2 == 0 { &[] } else { &[0xff] };
		acc.evaluations += 1;
		acc.transitions += 2;
		match sweep_one(name, *n, &master, suffix) {
			Ok(()) => {
				acc.states += 1;
				acc.traces += 1;
				if *n > 0 {
					acc.nontrivial += 1;
				}
				acc.outcome("ok");
			},
			Err(detail) => acc.violate(Violation {
				property: "C02".into(),
				sub: "C02.len".into(),
				key: format!("C02|Vec<{}>|length-sweep", name),
				detail,
				case: json!({"sub": "C02.len", "elem": name, "len": n}),
			}),
		}
	})
}

macro_rules! for_sweep_types {
	($m:ident, $($args:expr),*) => {{
		$m!(u8, "u8", $($args),*); $m!(i8, "i8", $($args),*); $m!(u16, "u16", $($args),*); $m!(i16, "i16", $($args),*);
		$m!(u32, "u32", $($args),*); $m!(i32, "i32", $($args),*); $m!(u64, "u64", $($args),*); $m!(i64, "i64", $($args),*);
		$m!(u128, "u128", $($args),*); $m!(i128, "i128", $($args),*); $m!(f32, "f32", $($args),*); $m!(f64, "f64", $($args),*);
		$m!(bool, "bool", $($args),*); $m!(Option<u8>, "Option<u8>", $($args),*); $m!(String, "String", $($args),*);
		$m!((u8, u16), "(u8, u16)", $($args),*); $m!(Twin<u32>, "Twin<u32>", $($args),*); $m!(Twin<u8>, "Twin<u8>", $($args),*);
	}};
}
pub(crate) use for_sweep_types;

pub fn run(tier: Tier, reg: &[VT]) -> Report {
	let mut rep = Report::new("C02", tier);
	let b = super::c01::bound(tier);
	let acc = par(reg, |vt, acc| {
		heartbeat(vt.name);
		let shape = (vt.shape)();
		let mut bb = b.clone();
		bb.big_fills = b.big_fills || vt.core;
		for v in domain::values(&shape, &bb) {
			for suffix in SUFFIXES {
				acc.evaluations += 1;
				acc.transitions += 2;
				match roundtrip(vt, &shape, &v, suffix) {
					Ok(Some(n)) => {
						acc.states += 1;
						acc.traces += 1;
						if n > 0 {
							acc.nontrivial += 1;
						}
						acc.outcome(&format!("ok-suffix{}", suffix.len()));
						if acc.evaluations % 20011 == 1 {
							acc.sample(json!({"type": vt.name, "value": value_short(&v), "suffix": hex(suffix), "encoded_len": n}));
						}
					},
					Ok(None) => acc.outcome("no-encoding"),
					Err(detail) => acc.violate(Violation {
						property: "C02".into(),
						sub: "C02.rt".into(),
						key: format!("C02|{}|roundtrip", vt.name),
						detail,
						case: json!({"sub": "C02.rt", "type": vt.name, "value": value_to_json(&v), "suffix": hex_full(suffix)}),
					}),
				}
			}
		}
	});
	rep.part("roundtrip", "every registry type x boundary value x 4 suffixes: decode(encode(v) ++ suffix) == (v, len)", acc);

	macro_rules! run_sweep {
		($t:ty, $name:expr, $rep:expr, $tier:expr) => {{
			let acc = sweep::<$t>($name, $tier, None);
			$rep.part(
				&format!("lengths Vec<{}>", $name),
				"element counts straddling the 16 KiB preallocation window (quick: m*chunk+{-1,0,1}; thorough: every length 0..=3*chunk+1)",
				acc,
			);
		}};
	}
	for_sweep_types!(run_sweep, rep, tier);

	rep.rule = "case = (type, value, suffix) over the boundary domains, plus (element type, length) for the preallocation-window sweep; \
		non-trivial = non-empty encoding / non-empty vector; states = round trips compared"
		.into();
	rep.bounds = json!({"types": reg.len(), "seq_len": b.seq_len, "suffixes": 4, "sweep": if tier.thorough() { "every length 0..=3*chunk+1" } else { "m*chunk+{-1,0,1}, m=1..3" }});
	rep.assumptions = vec!["value equality is the reference model's normalised equality (floats bit-equal, heaps as multisets, skipped fields default)".into()];
	rep
}

pub fn replay(reg: &[VT], case: &Json) -> Option<String> {
	match case["sub"].as_str().unwrap() {
		"C02.rt" => {
			let vt = find_vt(reg, case["type"].as_str().unwrap());
			let v = value_from_json(&case["value"]);
			roundtrip(vt, &(vt.shape)(), &v, &unhex(case["suffix"].as_str().unwrap())).err()
		},
		"C02.len" => {
			let name = case["elem"].as_str().unwrap().to_string();
			let n = case["len"].as_u64().unwrap() as usize;
			let mut out = None;
			macro_rules! one {
				($t:ty, $name:expr, $want:expr, $n:expr, $out:expr) => {
					if $want == $name {
						let master: Vec<$t> = (0..$n).map(<$t as SweepElem>::nth).collect();
						$out = sweep_one::<$t>($name, $n, &master, &[0xff]).err();
					}
				};
			}
			for_sweep_types!(one, name, n, out);
			out
		},
		_ => None,
	}
}

//! E4: explicit-state search with stateright; each transition calls the real operation.

use stateright::{Checker, Model};
use std::{fmt::Debug, hash::Hash};

pub struct SpaceResult<A> {
	pub unique_states: u64,
	pub generated_states: u64,
	pub max_depth: u64,
	/// actions of a counterexample per violated property
	pub counterexamples: Vec<(&'static str, Vec<A>)>,
	pub deterministic: bool,
}

/// Run a model to fixpoint (BFS, all cores) twice and compare the state counts: a difference would
/// mean uncaptured nondeterminism in the model or the code under it.
pub fn explore<M>(make: impl Fn() -> M) -> SpaceResult<M::Action>
where
	M: Model + Send + Sync + 'static,
	M::State: Hash + Clone + Debug + PartialEq + Send + Sync + 'static,
	M::Action: Clone + Debug + PartialEq + Send + Sync + 'static,
{
	let run = || {
		let c = make().checker().threads(crate::common::threads()).spawn_bfs().join();
		let ces: Vec<(&'static str, Vec<M::Action>)> =
			c.discoveries().into_iter().map(|(n, p)| (n, p.into_actions())).collect();
		(c.unique_state_count() as u64, c.state_count() as u64, c.max_depth() as u64, ces)
	};
	let (u1, g1, d1, ces) = run();
	let deterministic = if ces.is_empty() {
		let (u2, _g2, d2, _) = run();
		u1 == u2 && d1 == d2
	} else {
		true
	};
	SpaceResult { unique_states: u1, generated_states: g1, max_depth: d1, counterexamples: ces, deterministic }
}

//! Per-type tables of monomorphic function pointers.

use crate::{
	drivers::RestLen,
	inputs::DynIn,
	Subject,
};
use parity_scale_codec::{
	ConstEncodedLen, Decode, DecodeAll, DecodeLength, DecodeLimit, DecodeWithMemLimit,
	DecodeWithMemTracking, Encode, Input, MaxEncodedLen, MemTrackingInput, Output,
};
use refmodel::{Shape, Value};
use std::io;

#[derive(Clone, Debug, PartialEq, Eq)]
pub struct EncOut {
	pub encode: Vec<u8>,
	pub encode_to_vec: Vec<u8>,
	pub encode_to_dyn: Vec<u8>,
	pub encode_to_io: Vec<u8>,
	pub using_encoded: Vec<u8>,
	pub encoded_size: usize,
	pub size_hint: usize,
}

#[derive(Clone, Debug, PartialEq, Eq)]
pub struct DecOk {
	pub value: Value,
	pub consumed: usize,
}

pub type DecRes = Result<DecOk, String>;

/// An `Output` that is not a `Vec` nor an `io::Write` blanket: goes through `&mut dyn Output`.
pub struct PlainOut(pub Vec<u8>);
impl Output for PlainOut {
	fn write(&mut self, bytes: &[u8]) {
		self.0.extend_from_slice(bytes)
	}
}

/// An `io::Write` sink (exercises `Output for W: io::Write`).
pub struct IoSink(pub Vec<u8>);
impl io::Write for IoSink {
	fn write(&mut self, buf: &[u8]) -> io::Result<usize> {
		self.0.extend_from_slice(buf);
		Ok(buf.len())
	}
	fn flush(&mut self) -> io::Result<()> {
		Ok(())
	}
}

pub struct MemVT {
	/// (result, consumed-on-ok) under a limit
	pub decode_mem_limit: fn(&[u8], usize) -> DecRes,
	/// decode through `MemTrackingInput::new(_, usize::MAX)` and report `used_mem()`
	pub used_mem: fn(&[u8]) -> (DecRes, usize),
	/// heap payload (exact, tree) of the value decoded from the bytes
	pub payload: fn(&[u8]) -> Option<(usize, usize)>,
}

pub struct VT {
	pub name: &'static str,
	/// leaf | unary | depth2 | tuple | deep | twin | garray | bits | derived
	pub class: &'static str,
	/// member of the small core subset used where a full product would be too large
	pub core: bool,
	pub shape: fn() -> Shape,
	pub zw: bool,
	pub mem_size: usize,
	pub encode: fn(&Value) -> Vec<u8>,
	pub encode_all: fn(&Value) -> EncOut,
	pub encode_to_write: fn(&Value, &mut dyn io::Write),
	pub encode_twice: fn(&Value) -> (Vec<u8>, Vec<u8>),
	/// the value behind boxed / shared / borrowed holders: (holder, bytes)
	pub encode_holders: fn(&Value) -> Vec<(&'static str, Vec<u8>)>,
	pub decode: fn(&[u8]) -> DecRes,
	pub decode_dyn: fn(&mut dyn Input) -> Result<Value, String>,
	pub decode_reencode: fn(&[u8]) -> Result<(Vec<u8>, usize), String>,
	pub skip: fn(&[u8]) -> Result<usize, String>,
	/// skip through any input / through `IoReader` over any reader: succeeded?
	pub skip_dyn: fn(&mut dyn Input) -> bool,
	pub skip_io: fn(&mut dyn io::Read) -> bool,
	pub decode_all: fn(&[u8]) -> Result<Value, String>,
	pub decode_depth: fn(u32, &[u8]) -> DecRes,
	pub decode_all_depth: fn(u32, &[u8]) -> Result<Value, String>,
	pub decode_from_bytes: fn(Vec<u8>) -> DecRes,
	/// the bytes decoded as the boxed / shared holders of the type: (holder, value, consumed)
	pub decode_holders: fn(&[u8]) -> Vec<(&'static str, DecRes)>,
	/// decode and drop without converting the value (for allocation measurements): Ok?
	pub probe: fn(&[u8]) -> bool,
	pub probe_dyn: fn(&mut dyn Input) -> bool,
	pub probe_io: fn(&mut dyn io::Read) -> bool,
	pub probe_bytes: fn(bytes::Bytes) -> bool,
	/// decode through `IoReader` over any reader
	pub decode_io: fn(&mut dyn io::Read) -> Result<Value, String>,
	/// decode through `CountedInput` over a slice: (result, count(), bytes the slice delivered)
	pub decode_counted: fn(&[u8]) -> (Result<Value, String>, u64, usize),
	pub fixed_size: fn() -> Option<usize>,
	pub mel: Option<fn() -> usize>,
	pub cel: bool,
	pub mem: Option<MemVT>,
	pub len: Option<fn(&[u8]) -> Result<usize, String>>,
}

fn enc<T: Subject + Encode>(v: &Value) -> Vec<u8> {
	T::from_value(v).encode()
}

fn enc_all<T: Subject + Encode>(v: &Value) -> EncOut {
	let t = T::from_value(v);
	let encode = t.encode();
	let mut encode_to_vec = Vec::new();
	t.encode_to(&mut encode_to_vec);
	let mut p = PlainOut(vec![]);
	{
		let d: &mut dyn Output = &mut p;
		t.encode_to(d);
	}
	let mut s = IoSink(vec![]);
	t.encode_to(&mut s);
	let using_encoded = t.using_encoded(|b| b.to_vec());
	EncOut {
		encode,
		encode_to_vec,
		encode_to_dyn: p.0,
		encode_to_io: s.0,
		using_encoded,
		encoded_size: t.encoded_size(),
		size_hint: t.size_hint(),
	}
}

struct WriteRef<'a>(&'a mut dyn io::Write);
impl io::Write for WriteRef<'_> {
	fn write(&mut self, buf: &[u8]) -> io::Result<usize> {
		self.0.write(buf)
	}
	fn flush(&mut self) -> io::Result<()> {
		self.0.flush()
	}
}

fn enc_to_write<T: Subject + Encode>(v: &Value, w: &mut dyn io::Write) {
	let t = T::from_value(v);
	let mut w = WriteRef(w);
	t.encode_to(&mut w);
}

fn enc_twice<T: Subject + Encode>(v: &Value) -> (Vec<u8>, Vec<u8>) {
	let t = T::from_value(v);
	(t.encode(), t.encode())
}

fn enc_holders<T: Subject + Encode>(v: &Value) -> Vec<(&'static str, Vec<u8>)> {
	use std::{rc::Rc, sync::Arc};
	let mut t = T::from_value(v);
	let mut out = vec![("T", t.encode())];
	out.push(("&T", (&t).encode()));
	out.push(("&&T", (&&t).encode()));
	out.push(("&mut T", (&mut t).encode()));
	let b = Box::new(T::from_value(v));
	out.push(("Box<T>", b.encode()));
	out.push(("&Box<T>", (&b).encode()));
	out.push(("Box<Box<T>>", Box::new(Box::new(T::from_value(v))).encode()));
	let r = Rc::new(T::from_value(v));
	let r2 = r.clone();
	out.push(("Rc<T>", r.encode()));
	out.push(("Rc<T> (cloned, shared)", r2.encode()));
	let a = Arc::new(T::from_value(v));
	let a2 = Arc::clone(&a);
	out.push(("Arc<T>", a.encode()));
	out.push(("Arc<T> (cloned, shared)", a2.encode()));
	out.push(("Rc<Box<T>>", Rc::new(Box::new(T::from_value(v))).encode()));
	out
}

fn dec<T: Subject + Decode>(data: &[u8]) -> DecRes {
	let mut s = data;
	match T::decode(&mut s) {
		Ok(t) => Ok(DecOk { value: t.to_value(), consumed: data.len() - s.len() }),
		Err(e) => Err(e.to_string()),
	}
}

fn dec_dyn<T: Subject + Decode>(input: &mut dyn Input) -> Result<Value, String> {
	let mut d = DynIn(input);
	match T::decode(&mut d) {
		Ok(t) => Ok(t.to_value()),
		Err(e) => Err(e.to_string()),
	}
}

fn dec_reenc<T: Subject + Decode + Encode>(data: &[u8]) -> Result<(Vec<u8>, usize), String> {
	let mut s = data;
	match T::decode(&mut s) {
		Ok(t) => Ok((t.encode(), data.len() - s.len())),
		Err(e) => Err(e.to_string()),
	}
}

fn skip<T: Subject + Decode>(data: &[u8]) -> Result<usize, String> {
	let mut s = data;
	match T::skip(&mut s) {
		Ok(()) => Ok(data.len() - s.len()),
		Err(e) => Err(e.to_string()),
	}
}

fn skip_dyn<T: Decode>(input: &mut dyn Input) -> bool {
	T::skip(&mut DynIn(input)).is_ok()
}
fn skip_io<T: Decode>(r: &mut dyn io::Read) -> bool {
	T::skip(&mut parity_scale_codec::IoReader(ReadRef(r))).is_ok()
}

fn dec_all<T: Subject + Decode>(data: &[u8]) -> Result<Value, String> {
	let mut s = data;
	match T::decode_all(&mut s) {
		Ok(t) => Ok(t.to_value()),
		Err(e) => Err(e.to_string()),
	}
}

fn dec_depth<T: Subject + Decode>(limit: u32, data: &[u8]) -> DecRes {
	let mut s = data;
	match T::decode_with_depth_limit(limit, &mut s) {
		Ok(t) => Ok(DecOk { value: t.to_value(), consumed: data.len() - s.len() }),
		Err(e) => Err(e.to_string()),
	}
}

fn dec_all_depth<T: Subject + Decode>(limit: u32, data: &[u8]) -> Result<Value, String> {
	let mut s = data;
	match T::decode_all_with_depth_limit(limit, &mut s) {
		Ok(t) => Ok(t.to_value()),
		Err(e) => Err(e.to_string()),
	}
}

fn dec_from_bytes<T: Subject + Decode>(data: Vec<u8>) -> DecRes {
	let total = data.len();
	match parity_scale_codec::decode_from_bytes::<(T, RestLen)>(bytes::Bytes::from(data)) {
		Ok((t, RestLen(rest))) => Ok(DecOk {
			value: t.to_value(),
			consumed: total - rest.expect("BytesCursor reports its length"),
		}),
		Err(e) => Err(e.to_string()),
	}
}

fn dec_holders<T: Subject + Decode>(data: &[u8]) -> Vec<(&'static str, DecRes)> {
	use std::{rc::Rc, sync::Arc};
	fn run<H: Decode, T: Subject>(data: &[u8], get: impl Fn(&H) -> &T) -> DecRes {
		let mut s = data;
		match H::decode(&mut s) {
			Ok(h) => Ok(DecOk { value: get(&h).to_value(), consumed: data.len() - s.len() }),
			Err(e) => Err(e.to_string()),
		}
	}
	vec![
		("Box<T>", run::<Box<T>, T>(data, |h| &**h)),
		("Rc<T>", run::<Rc<T>, T>(data, |h| &**h)),
		("Arc<T>", run::<Arc<T>, T>(data, |h| &**h)),
		("Box<Box<T>>", run::<Box<Box<T>>, T>(data, |h| &***h)),
		("[T; 1]", run::<[T; 1], T>(data, |h| &h[0])),
	]
}

fn probe<T: Decode>(data: &[u8]) -> bool {
	let mut s = data;
	T::decode(&mut s).is_ok()
}
fn probe_dyn<T: Decode>(input: &mut dyn Input) -> bool {
	T::decode(&mut DynIn(input)).is_ok()
}
struct ReadRef<'a>(&'a mut dyn io::Read);
impl io::Read for ReadRef<'_> {
	fn read(&mut self, buf: &mut [u8]) -> io::Result<usize> {
		self.0.read(buf)
	}
}
fn probe_io<T: Decode>(r: &mut dyn io::Read) -> bool {
	T::decode(&mut parity_scale_codec::IoReader(ReadRef(r))).is_ok()
}
fn probe_bytes<T: Decode>(b: bytes::Bytes) -> bool {
	parity_scale_codec::decode_from_bytes::<T>(b).is_ok()
}
fn dec_io<T: Subject + Decode>(r: &mut dyn io::Read) -> Result<Value, String> {
	T::decode(&mut parity_scale_codec::IoReader(ReadRef(r))).map(|t| t.to_value()).map_err(|e| e.to_string())
}

fn dec_counted<T: Subject + Decode>(data: &[u8]) -> (Result<Value, String>, u64, usize) {
	let mut s = data;
	let mut c = parity_scale_codec::CountedInput::new(&mut s);
	let r = T::decode(&mut c);
	let count = c.count();
	let delivered = data.len() - s.len();
	(r.map(|t| t.to_value()).map_err(|e| e.to_string()), count, delivered)
}

fn fixed<T: Decode>() -> Option<usize> {
	T::encoded_fixed_size()
}

fn mel<T: MaxEncodedLen>() -> usize {
	T::max_encoded_len()
}

fn dec_mem<T: Subject + DecodeWithMemTracking>(data: &[u8], limit: usize) -> DecRes {
	let mut s = data;
	match T::decode_with_mem_limit(&mut s, limit) {
		Ok(t) => Ok(DecOk { value: t.to_value(), consumed: data.len() - s.len() }),
		Err(e) => Err(e.to_string()),
	}
}

fn used_mem<T: Subject + DecodeWithMemTracking>(data: &[u8]) -> (DecRes, usize) {
	let mut s = data;
	let mut m = MemTrackingInput::new(&mut s, usize::MAX);
	let r = T::decode(&mut m);
	let used = m.used_mem();
	let r = match r {
		Ok(t) => Ok(DecOk { value: t.to_value(), consumed: data.len() - s.len() }),
		Err(e) => Err(e.to_string()),
	};
	(r, used)
}

fn payload<T: Subject + Decode>(data: &[u8]) -> Option<(usize, usize)> {
	let mut s = data;
	T::decode(&mut s).ok().map(|t| t.heap_payload())
}

fn dlen<T: DecodeLength>(data: &[u8]) -> Result<usize, String> {
	T::len(data).map_err(|e| e.to_string())
}

impl VT {
	pub fn base<T: Subject + Encode + Decode>(name: &'static str, class: &'static str, core: bool) -> VT {
		VT {
			name,
			class,
			core,
			shape: T::shape,
			zw: T::ZW,
			mem_size: std::mem::size_of::<T>(),
			encode: enc::<T>,
			encode_all: enc_all::<T>,
			encode_to_write: enc_to_write::<T>,
			encode_twice: enc_twice::<T>,
			encode_holders: enc_holders::<T>,
			decode: dec::<T>,
			decode_dyn: dec_dyn::<T>,
			decode_reencode: dec_reenc::<T>,
			skip: skip::<T>,
			skip_dyn: skip_dyn::<T>,
			skip_io: skip_io::<T>,
			decode_all: dec_all::<T>,
			decode_depth: dec_depth::<T>,
			decode_all_depth: dec_all_depth::<T>,
			decode_from_bytes: dec_from_bytes::<T>,
			decode_holders: dec_holders::<T>,
			probe: probe::<T>,
			probe_dyn: probe_dyn::<T>,
			probe_io: probe_io::<T>,
			probe_bytes: probe_bytes::<T>,
			decode_io: dec_io::<T>,
			decode_counted: dec_counted::<T>,
			fixed_size: fixed::<T>,
			mel: None,
			cel: false,
			mem: None,
			len: None,
		}
	}
	pub fn mel<T: MaxEncodedLen>(mut self) -> VT {
		self.mel = Some(mel::<T>);
		self
	}
	pub fn cel<T: ConstEncodedLen>(mut self) -> VT {
		self.mel = Some(mel::<T>);
		self.cel = true;
		self
	}
	pub fn mem<T: Subject + DecodeWithMemTracking>(mut self) -> VT {
		self.mem = Some(MemVT {
			decode_mem_limit: dec_mem::<T>,
			used_mem: used_mem::<T>,
			payload: payload::<T>,
		});
		self
	}
	pub fn len<T: DecodeLength>(mut self) -> VT {
		self.len = Some(dlen::<T>);
		self
	}
}


// ------------------------------------------------------------------------------------------
// Trait probes: which optional traits a *concrete* type implements is discovered at compile time
// (inherent method preferred over a blanket trait method), so a newly added `MaxEncodedLen` /
// `ConstEncodedLen` / `DecodeLength` / `DecodeWithMemTracking` impl in the crate is picked up by the
// registry and checked without touching the generator.
// ------------------------------------------------------------------------------------------

pub struct Probe<T>(pub std::marker::PhantomData<T>);

pub trait ProbeFallback {
	fn mel_fn(&self) -> Option<fn() -> usize> {
		None
	}
	fn is_cel(&self) -> bool {
		false
	}
	fn len_fn(&self) -> Option<fn(&[u8]) -> Result<usize, String>> {
		None
	}
	fn mem_vt(&self) -> Option<MemVT> {
		None
	}
}
impl<T> ProbeFallback for Probe<T> {}

impl<T: MaxEncodedLen> Probe<T> {
	pub fn mel_fn(&self) -> Option<fn() -> usize> {
		Some(mel::<T>)
	}
}
impl<T: ConstEncodedLen> Probe<T> {
	pub fn is_cel(&self) -> bool {
		true
	}
}
impl<T: DecodeLength> Probe<T> {
	pub fn len_fn(&self) -> Option<fn(&[u8]) -> Result<usize, String>> {
		Some(dlen::<T>)
	}
}
impl<T: Subject + DecodeWithMemTracking> Probe<T> {
	pub fn mem_vt(&self) -> Option<MemVT> {
		Some(MemVT { decode_mem_limit: dec_mem::<T>, used_mem: used_mem::<T>, payload: payload::<T> })
	}
}

/// `vt!(T, "name", "class", core)`: base table plus every optional trait the concrete type has.
#[macro_export]
macro_rules! vt {
	($t:ty, $name:expr, $class:expr, $core:expr) => {{
		#[allow(unused_imports)]
		use $crate::vt::ProbeFallback as _;
		let p = $crate::vt::Probe::<$t>(std::marker::PhantomData);
		let mut v = $crate::vt::VT::base::<$t>($name, $class, $core);
		v.mel = p.mel_fn();
		v.cel = p.is_cel();
		v.len = p.len_fn();
		v.mem = p.mem_vt();
		v
	}};
}

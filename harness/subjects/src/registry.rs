//! The derived part of the registry (built-in type terms live in the generated `reg*` crates).

use crate::vt::VT;

pub fn derived() -> Vec<VT> {
	crate::derived::registry()
}

#!/bin/sh
# One-time setup after a fresh restore: regenerate the generated sources and build the harness
# (release, offline) against /repo's current tree with hooks enabled.
set -eu
VERIF="$(cd "$(dirname "$0")" && pwd)"
export VERIF_ROOT="$VERIF"
export CARGO_NET_OFFLINE=true
export RUSTFLAGS="--cfg parity_scale_codec_verif"
export CARGO_TARGET_DIR="$VERIF/target/harness"
mkdir -p "$VERIF/target/logs" "$VERIF/evidence"
python3 "$VERIF/gen/gen_registry.py" "$VERIF/harness" >/dev/null
python3 "$VERIF/gen/gen_derive.py" "$VERIF/harness" >/dev/null
# Background runs may work on their own snapshot of the repository (REPO_ROOT=$VP_RUN_REPO): point the
# path dependencies there. The registered checks always use /repo itself.
if [ -n "${REPO_ROOT:-}" ] && [ "$REPO_ROOT" != "/repo" ]; then
  for f in "$VERIF"/harness/*/Cargo.toml "$VERIF"/harness_digest/Cargo.toml; do
    sed -i "s#path = \"/repo\"#path = \"$REPO_ROOT\"#" "$f"
  done
  cp "$REPO_ROOT/Cargo.lock" "$VERIF/harness_digest/Cargo.lock" 2>/dev/null || true
fi
( cd "$VERIF/harness" && cargo build --release --offline -p pscv 2>&1 | tail -3 )
# warm the feature-matrix builds (C20) so that the first quick run is not dominated by them
( cd "$VERIF/harness_digest" && env -u RUSTFLAGS -u CARGO_TARGET_DIR cargo build --release --offline --no-default-features --features "std chain-error bit-vec bytes generic-array max-encoded-len derive" --target-dir "$VERIF/target/digest-default" 2>&1 | tail -1 ) || true
echo "setup done"

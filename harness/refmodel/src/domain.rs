//! Finite boundary domains of shapes (DESIGN.md A.1). Deterministic; no randomness.

use crate::{SeqKind, Shape, Value};

#[derive(Clone, Debug)]
pub struct Bound {
	/// all sequences up to this length over the reduced element domain
	pub seq_len: usize,
	/// enumerate all 65536 values of 16-bit integers (top level only)
	pub full16: bool,
	/// cap on the number of values produced for one composite shape; when the full product would
	/// exceed it the element alphabet is reduced first (never truncated silently in the middle)
	pub cap: usize,
	/// position-coded fills across the 2→4 byte count-prefix boundary (16383/16384/16385 elements)
	pub big_fills: bool,
}

impl Bound {
	pub fn quick() -> Self {
		Bound { seq_len: 3, full16: true, cap: 20_000, big_fills: false }
	}
	pub fn thorough() -> Self {
		Bound { seq_len: 4, full16: true, cap: 200_000, big_fills: true }
	}
	pub fn small() -> Self {
		Bound { seq_len: 2, full16: false, cap: 300, big_fills: false }
	}
}

pub const KS: [u32; 25] = [
	6, 7, 8, 14, 15, 16, 24, 30, 31, 32, 40, 48, 56, 63, 64, 72, 80, 88, 96, 104, 112, 120, 127,
	128, 29,
];

pub fn mask(bits: u32) -> u128 {
	if bits == 128 {
		u128::MAX
	} else {
		(1u128 << bits) - 1
	}
}

/// bytes `01 02 .. W/8` little-endian
pub fn lane(bits: u32) -> u128 {
	let mut x = 0u128;
	for i in 0..(bits / 8) {
		x |= ((i + 1) as u128) << (8 * i);
	}
	x
}

pub fn uint_boundary(bits: u32) -> Vec<u128> {
	let m = mask(bits);
	let mut v: Vec<u128> = vec![0, 1, 2, 3, m - 1, m, lane(bits)];
	for k in KS {
		if k <= bits {
			let p = if k == 128 { 0u128 } else { 1u128 << k };
			v.push(p.wrapping_sub(1) & m);
			if k < bits {
				v.push(p);
				v.push(p + 1);
			}
		}
	}
	// high-bit lane pattern: makes sign/byte-order confusion visible
	v.push(lane(bits) ^ m);
	v.sort();
	v.dedup();
	v
}

fn to_signed(bits: u32, x: u128) -> i128 {
	if bits == 128 {
		x as i128
	} else {
		let s = 128 - bits;
		((x << s) as i128) >> s
	}
}

pub fn sint_boundary(bits: u32) -> Vec<i128> {
	let mut v: Vec<i128> = uint_boundary(bits).into_iter().map(|x| to_signed(bits, x)).collect();
	let min = to_signed(bits, 1u128 << (bits - 1));
	v.extend_from_slice(&[-1, -2, min, min + 1]);
	for k in KS {
		if k < bits - 1 {
			v.push(-(1i128 << k));
			v.push(-(1i128 << k) - 1);
		}
	}
	v.sort();
	v.dedup();
	v
}

pub fn f32_boundary() -> Vec<u32> {
	vec![
		0x0000_0000, // +0
		0x8000_0000, // -0
		0x3f80_0000, // 1
		0xbf80_0000, // -1
		0x0000_0001, // min subnormal
		0x8000_0001,
		0x7f7f_ffff, // max
		0xff7f_ffff,
		0x7f80_0000, // inf
		0xff80_0000,
		0x7fc0_0001, // quiet NaN with payload
		0x7fa0_0002, // signalling NaN with payload
		0xffc1_2345,
		0x0403_0201, // lane-coded
	]
}

pub fn f64_boundary() -> Vec<u64> {
	vec![
		0,
		0x8000_0000_0000_0000,
		0x3ff0_0000_0000_0000,
		0xbff0_0000_0000_0000,
		1,
		0x8000_0000_0000_0001,
		0x7fef_ffff_ffff_ffff,
		0xffef_ffff_ffff_ffff,
		0x7ff0_0000_0000_0000,
		0xfff0_0000_0000_0000,
		0x7ff8_0000_0000_0001,
		0x7ff4_0000_0000_0002,
		0xfff8_1234_5678_9abc,
		0x0807_0605_0403_0201,
	]
}

fn some(v: Value) -> Value {
	Value::Some_(Box::new(v))
}

fn strings() -> Vec<Value> {
	vec![
		Value::Str(String::new()),
		Value::Str("a".into()),
		Value::Str("é".into()),
		Value::Str("hello, wörld \u{10348}".into()),
	]
}

/// A deterministic, position-dependent value of a shape, used for position-coded fills.
pub fn fill(shape: &Shape, i: usize) -> Value {
	match shape {
		Shape::UInt(bits) => Value::U(lane(*bits).wrapping_add(i as u128 * 0x0101) & mask(*bits)),
		Shape::SInt(bits) =>
			Value::I(to_signed(*bits, lane(*bits).wrapping_add(i as u128 * 0x0101) & mask(*bits))),
		Shape::F32 => Value::F32(0x7fc0_0000u32.wrapping_add(i as u32 * 0x0101 + 1)),
		Shape::F64 => Value::F64(0x7ff8_0000_0000_0000u64.wrapping_add(i as u64 * 0x0101 + 1)),
		_ => {
			let r = reduced(shape);
			r[i % r.len()].clone()
		},
	}
}

fn take_first<T: Clone>(v: &[T], n: usize) -> Vec<T> {
	v.iter().take(n).cloned().collect()
}

fn pick<T: Clone>(v: &[T], idx: &[usize]) -> Vec<T> {
	let mut out: Vec<T> = vec![];
	for &i in idx {
		if i < v.len() {
			out.push(v[i].clone());
		}
	}
	out
}

/// Star pattern over component domains: the all-first tuple, then each component varied alone,
/// then the all-last tuple. Keeps a product from exploding while each position is exercised.
fn star(doms: &[Vec<Value>]) -> Vec<Vec<Value>> {
	let mut out = vec![];
	if doms.iter().any(|d| d.is_empty()) {
		return out;
	}
	let base: Vec<Value> = doms.iter().map(|d| d[0].clone()).collect();
	out.push(base.clone());
	for (i, d) in doms.iter().enumerate() {
		for x in d.iter().skip(1) {
			let mut t = base.clone();
			t[i] = x.clone();
			out.push(t);
		}
	}
	let last: Vec<Value> = doms.iter().map(|d| d[d.len() - 1].clone()).collect();
	if !out.contains(&last) {
		out.push(last);
	}
	out
}

fn product(doms: &[Vec<Value>], cap: usize) -> Vec<Vec<Value>> {
	let mut total: usize = 1;
	for d in doms {
		total = total.saturating_mul(d.len());
	}
	if total > cap {
		return star(doms);
	}
	let mut out: Vec<Vec<Value>> = vec![vec![]];
	for d in doms {
		let mut next = Vec::with_capacity(out.len() * d.len());
		for p in &out {
			for x in d {
				let mut q = p.clone();
				q.push(x.clone());
				next.push(q);
			}
		}
		out = next;
	}
	out
}

/// All sequences of length <= k over `alpha`.
fn seqs(alpha: &[Value], k: usize) -> Vec<Vec<Value>> {
	let mut out: Vec<Vec<Value>> = vec![vec![]];
	let mut frontier: Vec<Vec<Value>> = vec![vec![]];
	for _ in 0..k {
		let mut next = vec![];
		for p in &frontier {
			for x in alpha {
				let mut q = p.clone();
				q.push(x.clone());
				next.push(q);
			}
		}
		out.extend(next.iter().cloned());
		frontier = next;
	}
	out
}

fn seq_value(e: &Shape, xs: Vec<Value>) -> Value {
	if e.zero_width() {
		Value::Rep(xs.len() as u64)
	} else {
		Value::List(xs)
	}
}

/// The reduced domain used for compositions: a handful of values per shape.
pub fn reduced(shape: &Shape) -> Vec<Value> {
	match shape {
		Shape::UInt(bits) => {
			let mut v = vec![0, 1, lane(*bits), mask(*bits)];
			v.dedup();
			v.into_iter().map(Value::U).collect()
		},
		Shape::SInt(bits) => {
			let min = to_signed(*bits, 1u128 << (bits - 1));
			vec![Value::I(0), Value::I(-1), Value::I(to_signed(*bits, lane(*bits))), Value::I(min)]
		},
		Shape::NonZeroU(bits) =>
			vec![Value::U(1), Value::U(lane(*bits)), Value::U(mask(*bits))],
		Shape::NonZeroI(bits) => {
			let min = to_signed(*bits, 1u128 << (bits - 1));
			vec![Value::I(1), Value::I(-1), Value::I(min)]
		},
		Shape::F32 => vec![Value::F32(0), Value::F32(0x3f80_0000), Value::F32(0x7fc0_0001)],
		Shape::F64 => vec![
			Value::F64(0),
			Value::F64(0x3ff0_0000_0000_0000),
			Value::F64(0x7ff8_0000_0000_0001),
		],
		Shape::Bool => vec![Value::Bool(false), Value::Bool(true)],
		Shape::Unit | Shape::CompactUnit | Shape::Phantom => vec![Value::Unit],
		Shape::CompactMax(_, max) => {
			let mut v: Vec<u128> = vec![0, 63, 64, *max];
			v.retain(|x| x <= max);
			v.sort();
			v.dedup();
			v.into_iter().map(Value::U).collect()
		},
		Shape::Compact(bits) => {
			let mut v: Vec<u128> = vec![0, 64, 1 << 14, 1 << 30, mask(*bits)];
			v.retain(|x| *x <= mask(*bits));
			v.sort();
			v.dedup();
			v.into_iter().map(Value::U).collect()
		},
		Shape::Option(e) => {
			let mut v = vec![Value::None_];
			for x in take_first(&reduced(e), 3) {
				v.push(some(x));
			}
			v
		},
		Shape::Result(t, e) => {
			let mut v = vec![];
			for x in take_first(&reduced(t), 2) {
				v.push(Value::Ok_(Box::new(x)));
			}
			for x in take_first(&reduced(e), 2) {
				v.push(Value::Err_(Box::new(x)));
			}
			v
		},
		Shape::OptionBool =>
			vec![Value::None_, some(Value::Bool(true)), some(Value::Bool(false))],
		Shape::Seq(kind, e) => {
			let r = reduced(e);
			let a = r[0].clone();
			let z = r[r.len() - 1].clone();
			let mut v = vec![vec![], vec![a.clone()], vec![z.clone(), a.clone()]];
			if *kind != SeqKind::Set {
				v.push(vec![a.clone(), z.clone(), z.clone()]);
			}
			let mut out: Vec<Value> = v.into_iter().map(|xs| seq_value(e, xs)).collect();
			out.dedup();
			out
		},
		Shape::Map(k, val) => {
			let ks = reduced(k);
			let vs = reduced(val);
			let a = (ks[0].clone(), vs[vs.len() - 1].clone());
			let z = (ks[ks.len() - 1].clone(), vs[0].clone());
			let mut out = vec![Value::Map(vec![]), Value::Map(vec![a.clone()])];
			if a.0 != z.0 {
				out.push(Value::Map(vec![a, z]));
			}
			out
		},
		Shape::Array(n, e) => {
			if e.zero_width() {
				return vec![Value::Rep(*n as u64)];
			}
			let r = reduced(e);
			let mut out = vec![
				Value::List((0..*n).map(|_| r[0].clone()).collect()),
				Value::List((0..*n).map(|i| fill(e, i)).collect()),
				Value::List((0..*n).map(|_| r[r.len() - 1].clone()).collect()),
			];
			out.dedup();
			out
		},
		Shape::Tuple(es) => {
			let doms: Vec<Vec<Value>> = es.iter().map(|e| take_first(&reduced(e), 2)).collect();
			let mut out: Vec<Value> = star(&doms).into_iter().map(Value::List).collect();
			out.truncate(6);
			if out.is_empty() {
				out.push(Value::List(vec![]));
			}
			out
		},
		Shape::Str => take_first(&strings(), 3),
		Shape::Bytes => vec![
			Value::Bytes(vec![]),
			Value::Bytes(vec![7]),
			Value::Bytes(vec![1, 2, 3, 0xff]),
		],
		Shape::Wrap(_, e) => reduced(e),
		Shape::Duration => vec![
			Value::List(vec![Value::U(0), Value::U(0)]),
			Value::List(vec![Value::U(lane(64)), Value::U(999_999_999)]),
			Value::List(vec![Value::U(u64::MAX as u128), Value::U(1)]),
		],
		Shape::Range(e) | Shape::RangeIncl(e) => {
			let r = reduced(e);
			let a = r[0].clone();
			let z = r[r.len() - 1].clone();
			let mut out = vec![
				Value::List(vec![a.clone(), z.clone()]),
				Value::List(vec![z.clone(), a.clone()]),
				Value::List(vec![a.clone(), a]),
			];
			out.dedup();
			out
		},
		Shape::Bits { .. } => vec![
			Value::Bits(vec![]),
			Value::Bits(vec![true]),
			Value::Bits(vec![false, true, true, false, false, false, false, false, true]),
		],
		Shape::Struct(fs) => {
			let doms: Vec<Vec<Value>> = fs.iter().map(|f| field_reduced(f, 2)).collect();
			let mut out: Vec<Value> = star(&doms).into_iter().map(Value::List).collect();
			out.truncate(6);
			if out.is_empty() {
				out.push(Value::List(vec![]));
			}
			out
		},
		Shape::Enum(vs) => {
			let mut out = vec![];
			for (i, var) in vs.iter().enumerate() {
				if var.index.is_none() {
					continue;
				}
				let doms: Vec<Vec<Value>> = var.fields.iter().map(|f| field_reduced(f, 2)).collect();
				for t in star(&doms).into_iter().take(2) {
					out.push(Value::Variant(i, t));
				}
				if var.fields.is_empty() {
					out.push(Value::Variant(i, vec![]));
				}
			}
			out.dedup();
			if out.is_empty() {
				// every variant is skipped: the only values there are have no encoding
				if let Some(var) = vs.first() {
					let t: Vec<Value> = var.fields.iter().map(|f| field_reduced(f, 1)[0].clone()).collect();
					out.push(Value::Variant(0, t));
				}
			}
			out
		},
	}
}

/// Domain of a field: skipped fields also get a non-default value (so that "reset to default"
/// is observable), except where no default exists.
fn field_reduced(f: &crate::Field, n: usize) -> Vec<Value> {
	let r = reduced(&f.shape);
	if f.skip {
		// last value is usually the non-default one
		vec![r[r.len() - 1].clone()]
	} else {
		take_first(&r, n)
	}
}

/// The full boundary domain of a shape under a bound.
pub fn values(shape: &Shape, b: &Bound) -> Vec<Value> {
	let out = values_inner(shape, b, true);
	debug_assert!(!out.is_empty() || matches!(shape, Shape::Enum(_)));
	out
}

fn values_inner(shape: &Shape, b: &Bound, top: bool) -> Vec<Value> {
	match shape {
		Shape::UInt(bits) =>
			if *bits == 8 || (*bits == 16 && b.full16 && top) {
				(0..=mask(*bits)).map(Value::U).collect()
			} else {
				uint_boundary(*bits).into_iter().map(Value::U).collect()
			},
		Shape::SInt(bits) =>
			if *bits == 8 || (*bits == 16 && b.full16 && top) {
				(0..=mask(*bits)).map(|x| Value::I(to_signed(*bits, x))).collect()
			} else {
				sint_boundary(*bits).into_iter().map(Value::I).collect()
			},
		Shape::NonZeroU(bits) =>
			values_inner(&Shape::UInt(*bits), b, top).into_iter().filter(|v| *v != Value::U(0)).collect(),
		Shape::NonZeroI(bits) =>
			values_inner(&Shape::SInt(*bits), b, top).into_iter().filter(|v| *v != Value::I(0)).collect(),
		Shape::CompactMax(bits, max) =>
			values_inner(&Shape::Compact(*bits), b, top).into_iter().filter(|v| matches!(v, Value::U(x) if x <= max)).chain([Value::U(*max)]).collect::<std::collections::BTreeSet<_>>().into_iter().collect(),
		Shape::Compact(bits) =>
			if *bits == 8 || (*bits == 16 && b.full16 && top) {
				(0..=mask(*bits)).map(Value::U).collect()
			} else {
				uint_boundary(*bits).into_iter().map(Value::U).collect()
			},
		Shape::F32 => f32_boundary().into_iter().map(Value::F32).collect(),
		Shape::F64 => f64_boundary().into_iter().map(Value::F64).collect(),
		Shape::Option(e) => {
			let mut v = vec![Value::None_];
			v.extend(values_inner(e, b, false).into_iter().map(some));
			v
		},
		Shape::Result(t, e) => {
			let mut v: Vec<Value> =
				values_inner(t, b, false).into_iter().map(|x| Value::Ok_(Box::new(x))).collect();
			v.extend(values_inner(e, b, false).into_iter().map(|x| Value::Err_(Box::new(x))));
			v
		},
		Shape::Seq(kind, e) => {
			if e.zero_width() {
				let mut out: Vec<Value> =
					[0u64, 1, 2, 3, 63, 64, 65, 16383, 16384].iter().map(|n| Value::Rep(*n)).collect();
				if *kind == SeqKind::Set {
					out.truncate(2);
				}
				return out;
			}
			let r = reduced(e);
			let mut alpha = r.len();
			// reduce the element alphabet until the full enumeration fits the cap
			loop {
				let mut total = 0usize;
				let mut p = 1usize;
				for _ in 0..=b.seq_len {
					total = total.saturating_add(p);
					p = p.saturating_mul(alpha);
				}
				if total <= b.cap || alpha <= 2 {
					break;
				}
				alpha -= 1;
			}
			let idx: Vec<usize> = match alpha {
				a if a >= r.len() => (0..r.len()).collect(),
				2 => vec![0, r.len() - 1],
				3 => vec![0, 1, r.len() - 1],
				a => (0..a - 1).chain([r.len() - 1]).collect(),
			};
			let alpha_vals = pick(&r, &idx);
			let mut out: Vec<Value> =
				seqs(&alpha_vals, b.seq_len).into_iter().map(|xs| seq_value(e, xs)).collect();
			if top {
				// position-coded fills across the 1→2 byte count-prefix boundary
				for n in [63usize, 64, 65] {
					out.push(seq_value(e, (0..n).map(|i| fill(e, i)).collect()));
				}
				if b.big_fills {
					for n in [16383usize, 16384, 16385] {
						out.push(seq_value(e, (0..n).map(|i| fill(e, i)).collect()));
					}
				}
			}
			out
		},
		Shape::Map(k, val) => {
			// all subsets of a <= 4-key alphabet, values position-coded
			let ks = take_first(&reduced(k), 4);
			let vs = reduced(val);
			let mut out = vec![];
			for m in 0..(1u32 << ks.len()) {
				let mut xs = vec![];
				for (i, key) in ks.iter().enumerate() {
					if m >> i & 1 == 1 {
						xs.push((key.clone(), vs[(i + m as usize) % vs.len()].clone()));
					}
				}
				out.push(Value::Map(xs));
			}
			out
		},
		Shape::Array(n, e) => {
			if e.zero_width() {
				return vec![Value::Rep(*n as u64)];
			}
			let mut out = reduced(shape);
			if *n <= 3 {
				let d = take_first(&values_inner(e, b, false), 6);
				let doms: Vec<Vec<Value>> = (0..*n).map(|_| d.clone()).collect();
				for t in product(&doms, b.cap) {
					out.push(Value::List(t));
				}
			}
			out.sort();
			out.dedup();
			out
		},
		Shape::Tuple(es) => {
			let doms: Vec<Vec<Value>> = es
				.iter()
				.map(|e| if es.len() <= 3 { values_inner(e, b, false) } else { reduced(e) })
				.collect();
			let doms: Vec<Vec<Value>> = doms
				.into_iter()
				.map(|d| if d.len() > 40 { take_first(&d, 20).into_iter().chain(d[d.len() - 20..].iter().cloned()).collect() } else { d })
				.collect();
			product(&doms, b.cap).into_iter().map(Value::List).collect()
		},
		Shape::Str => {
			let mut v = strings();
			v.push(Value::Str("x".repeat(63)));
			v.push(Value::Str("y".repeat(64)));
			v.push(Value::Str("\u{7ff}\u{800}\u{ffff}\u{10000}\u{10ffff}".into()));
			if b.big_fills && top {
				v.push(Value::Str("z".repeat(16383)));
				v.push(Value::Str("z".repeat(16384)));
			}
			v
		},
		Shape::Bytes => {
			let mut v = reduced(shape);
			v.push(Value::Bytes((0..63u8).collect()));
			v.push(Value::Bytes((0..64u8).collect()));
			v.push(Value::Bytes((0..=255u8).collect()));
			v
		},
		Shape::Wrap(_, e) => values_inner(e, b, top),
		Shape::Duration => {
			let mut v = vec![];
			for s in [0u128, 1, lane(64), u64::MAX as u128] {
				for n in [0u128, 1, 999_999_999] {
					v.push(Value::List(vec![Value::U(s), Value::U(n)]));
				}
			}
			v
		},
		Shape::Range(e) | Shape::RangeIncl(e) => {
			let d = values_inner(e, b, false);
			let d = if d.len() > 12 { reduced(e) } else { d };
			product(&[d.clone(), d], b.cap).into_iter().map(Value::List).collect()
		},
		Shape::Bits { store, .. } => {
			let mut out = vec![];
			// all bit strings up to length 10
			for n in 0..=10usize {
				for m in 0..(1u32 << n) {
					out.push(Value::Bits((0..n).map(|i| m >> i & 1 == 1).collect()));
				}
			}
			// position-coded strings around the word boundaries
			let w = *store as usize;
			let mut lens = vec![15, 16, 17, 31, 32, 33, 63, 64, 65, 127, 128, 129];
			lens.extend_from_slice(&[w - 1, w, w + 1, 2 * w - 1, 2 * w, 2 * w + 1]);
			lens.sort();
			lens.dedup();
			for n in lens {
				out.push(Value::Bits((0..n).map(|i| (i * 7 + i / 3) % 3 != 1).collect()));
				out.push(Value::Bits((0..n).map(|_| true).collect()));
				out.push(Value::Bits((0..n).map(|i| i == n - 1).collect()));
			}
			out
		},
		Shape::Struct(fs) => {
			let doms: Vec<Vec<Value>> = fs
				.iter()
				.map(|f| {
					if f.skip {
						field_reduced(f, 1)
					} else if fs.len() <= 3 {
						let d = values_inner(&f.shape, b, false);
						if d.len() > 40 {
							reduced(&f.shape)
						} else {
							d
						}
					} else {
						reduced(&f.shape)
					}
				})
				.collect();
			let mut out: Vec<Value> = product(&doms, b.cap).into_iter().map(Value::List).collect();
			if out.is_empty() {
				out.push(Value::List(vec![]));
			}
			out
		},
		Shape::Enum(vs) => {
			let mut out = vec![];
			for (i, var) in vs.iter().enumerate() {
				let doms: Vec<Vec<Value>> = var
					.fields
					.iter()
					.map(|f| {
						if f.skip {
							field_reduced(f, 1)
						} else {
							let d = values_inner(&f.shape, b, false);
							if d.len() > 40 {
								reduced(&f.shape)
							} else {
								d
							}
						}
					})
					.collect();
				if var.fields.is_empty() {
					out.push(Value::Variant(i, vec![]));
				} else {
					for t in product(&doms, b.cap) {
						out.push(Value::Variant(i, t));
					}
				}
			}
			out
		},
		// leaves whose reduced domain is already the full boundary domain
		_ => reduced(shape),
	}
}

//! C03 — the decoder accepts exactly the SCALE language and is total on any bytes.

use crate::{common::*, oracle::*};
use refmodel::{domain, ref_dec_lazy, ref_enc, Shape, Value};
use serde_json::{json, Value as Json};
use subjects::{inputs::LazyInput, vt::VT};

/// The reduced byte alphabet of the deep exploration (DESIGN.md §3 C03 (b)).
pub const B: [u8; 20] = [
	0x00, 0x01, 0x02, 0x03, 0x04, 0x05, 0x07, 0x08, 0x0b, 0x0f, 0x13, 0x33, 0x3f, 0x40, 0x7f, 0x80, 0xfc,
	0xfd, 0xfe, 0xff,
];

pub type NodeFn = fn(&VT, &Shape, &[u8]) -> Result<(&'static str, bool), String>;

pub struct Explore<'a> {
	/// what is checked at every node (C03: decode vs reference); returns (outcome class, whether
	/// longer strings can behave differently)
	pub nodefn: NodeFn,
	pub property: &'static str,
	pub vt: &'a VT,
	pub shape: Shape,
	pub alphabet: &'a [u8],
	pub max_depth: usize,
	pub cap: u64,
	pub runs: u64,
	pub capped: bool,
	/// number of nodes at each depth (fully covered depth accounting)
	pub per_depth: Vec<u64>,
}

/// One node of the lazy exploration: decode `prefix` as a complete slice (the property's subject)
/// and through `LazyInput` (to learn whether the decoder looked past the end); compare with the
/// reference. Returns whether longer strings can behave differently.
pub fn node(vt: &VT, shape: &Shape, prefix: &[u8]) -> Result<(&'static str, bool), String> {
	let class = check_decode(vt, shape, prefix)?;
	let mut lazy = LazyInput::new(prefix);
	let lr = guarded(|| (vt.decode_dyn)(&mut lazy)).map_err(|p| format!("decode (lazy input) panicked: {}", p))?;
	let (want, ref_touched) = ref_dec_lazy(shape, prefix);
	match (&lr, &want) {
		(Ok(v), Ok((w, n))) => {
			if lazy.pos != *n || shape.normalize(v) != shape.normalize(w) {
				return Err(format!("lazy-input decode differs from reference: {} using {}", value_short(v), lazy.pos));
			}
		},
		(Err(_), Err(_)) => {},
		_ => return Err("accept/reject differs between slice input and recording input".to_string()),
	}
	Ok((class, lazy.touched_end || lazy.asked_len || ref_touched))
}

impl<'a> Explore<'a> {
	pub fn go(&mut self, prefix: &mut Vec<u8>, acc: &mut Acc, sub: &str) {
		if self.runs >= self.cap {
			self.capped = true;
			return;
		}
		self.runs += 1;
		self.per_depth[prefix.len()] += 1;
		acc.evaluations += 1;
		acc.transitions += 2;
		match (self.nodefn)(self.vt, &self.shape, prefix) {
			Ok((class, open)) => {
				acc.states += 1;
				acc.traces += 1;
				if !prefix.is_empty() {
					acc.nontrivial += 1;
				}
				acc.outcome(class);
				if class == "accept" {
					acc.add("accepted", 1);
				}
				if open && prefix.len() < self.max_depth {
					for &b in self.alphabet {
						prefix.push(b);
						self.go(prefix, acc, sub);
						prefix.pop();
					}
				} else if !open {
					acc.add("closed_leaves", 1);
				}
			},
			Err(detail) => acc.violate(Violation {
				property: self.property.into(),
				sub: sub.into(),
				key: format!("{}|{}|{}", self.property, self.vt.name, sub),
				detail,
				case: decode_case(sub, self.vt, prefix),
			}),
		}
	}
}

impl<'a> Explore<'a> {
	pub fn new(property: &'static str, nodefn: NodeFn, vt: &'a VT, alphabet: &'a [u8], max_depth: usize, cap: u64) -> Self {
		Explore { nodefn, property, vt, shape: (vt.shape)(), alphabet, max_depth, cap, runs: 0, capped: false, per_depth: vec![0; max_depth + 1] }
	}
}

/// Whether a decode of `prefix` looks past its end (crate through a recording input, or reference).
pub fn open_node(vt: &VT, shape: &Shape, prefix: &[u8]) -> bool {
	let mut lazy = LazyInput::new(prefix);
	let _ = guarded(|| (vt.decode_dyn)(&mut lazy));
	let (_, ref_touched) = ref_dec_lazy(shape, prefix);
	lazy.touched_end || lazy.asked_len || ref_touched
}

/// Lazy exploration of all byte strings over `alphabet` up to `max_depth` for every type in `types`
/// with the given node check; iterative deepening under a per-type run cap when `cap` is finite.
pub fn explore_all(property: &'static str, sub: &'static str, nodefn: NodeFn, types: &[&VT], alphabet: &[u8], max_depth: usize, cap: u64, skip_zw: bool) -> Acc {
	if cap == u64::MAX && max_depth >= 2 {
		// Uncapped exploration is split into (type, first byte) work items so that one expensive type
		// does not serialise the run: phase 1 visits the roots, phase 2 the sub-trees below every
		// first byte of the types whose root is open.
		let open_roots = std::sync::Mutex::new(Vec::<usize>::new());
		let idx: Vec<usize> = (0..types.len()).collect();
		let mut acc = par(&idx, |i, acc| {
			let vt = types[*i];
			if skip_zw && zw_container(&(vt.shape)()) {
				acc.add("skipped_zero_width_containers", 1);
				return;
			}
			let mut ex = Explore::new(property, nodefn, vt, alphabet, 0, cap);
			ex.go(&mut vec![], acc, sub);
			// depth 0 never recurses; decide openness of the root separately
			if open_node(vt, &(vt.shape)(), &[]) {
				open_roots.lock().unwrap().push(*i);
			}
		});
		let mut roots = open_roots.into_inner().unwrap();
		roots.sort();
		let items: Vec<(usize, u8)> = roots.iter().flat_map(|i| alphabet.iter().map(move |b| (*i, *b))).collect();
		let acc2 = par(&items, |(i, b), acc| {
			let vt = types[*i];
			if *b == alphabet[0] {
				heartbeat(&format!("{} {}", vt.name, sub));
			}
			let mut ex = Explore::new(property, nodefn, vt, alphabet, max_depth, cap);
			ex.go(&mut vec![*b], acc, sub);
		});
		acc.merge(acc2);
		return acc;
	}
	par(types, |vt, acc| {
		heartbeat(&format!("{} {}", vt.name, sub));
		if skip_zw && zw_container(&(vt.shape)()) {
			acc.add("skipped_zero_width_containers", 1);
			return;
		}
		if cap == u64::MAX {
			let mut ex = Explore::new(property, nodefn, vt, alphabet, max_depth, cap);
			ex.go(&mut vec![], acc, sub);
			return;
		}
		for d in 1..=max_depth {
			let mut scratch = Acc::default();
			let mut ex = Explore::new(property, nodefn, vt, alphabet, d, cap);
			ex.go(&mut vec![], &mut scratch, sub);
			if ex.capped || d == max_depth || ex.per_depth[d] == 0 {
				if ex.capped {
					scratch.add("types_capped", 1);
					scratch.add(&format!("covered_depth_{}", d - 1), 1);
				} else {
					scratch.add(&format!("covered_depth_{}", d), 1);
				}
				acc.merge(scratch);
				break;
			}
		}
	})
}

/// Types whose zero-width elements make a 4-byte count prefix cost 2^30 iterations or nodes.
pub fn zw_container(shape: &Shape) -> bool {
	match shape {
		Shape::Seq(_, e) => e.zero_width() || zw_container(e),
		Shape::Map(k, v) => (k.zero_width() && v.zero_width()) || zw_container(k) || zw_container(v),
		Shape::Option(e) | Shape::Array(_, e) | Shape::Wrap(_, e) | Shape::Range(e) | Shape::RangeIncl(e) => zw_container(e),
		Shape::Result(a, c) => zw_container(a) || zw_container(c),
		Shape::Tuple(es) => es.iter().any(zw_container),
		Shape::Struct(fs) => fs.iter().any(|f| !f.skip && zw_container(&f.shape)),
		Shape::Enum(vs) => vs.iter().any(|v| v.fields.iter().any(|f| !f.skip && zw_container(&f.shape))),
		_ => false,
	}
}

pub const ALL: [u8; 256] = {
	let mut a = [0u8; 256];
	let mut i = 0;
	while i < 256 {
		a[i] = i as u8;
		i += 1;
	}
	a
};

pub const SMALL4: [&str; 14] = [
	"Compact<u32>",
	"Compact<u8>",
	"Compact<u16>",
	"Option<bool>",
	"Result<bool, u8>",
	"OptionBool",
	"NonZeroU16",
	"Vec<u8>",
	"String",
	"BitVec<u8, Lsb0>",
	"Vec<bool>",
	"Option<Option<bool>>",
	"BTreeSet<u8>",
	"Vec<Option<u8>>",
];

/// Single-deviation (and pairwise) neighbourhoods of a valid encoding.
pub fn mutations(enc: &[u8], pairs: bool, f: &mut dyn FnMut(&[u8])) {
	let n = enc.len();
	let mut buf = enc.to_vec();
	// positions: everything for short encodings, head and tail for long ones
	let positions: Vec<usize> = if n <= 48 { (0..n).collect() } else { (0..24).chain(n - 8..n).collect() };
	// substitution by every other byte value
	for &i in &positions {
		let orig = buf[i];
		for x in 0..=255u8 {
			if x != orig {
				buf[i] = x;
				f(&buf);
			}
		}
		buf[i] = orig;
	}
	// truncation at every point, deletion of one byte, insertion of a B byte
	for &i in &positions {
		f(&enc[..i]);
		let mut d = enc.to_vec();
		d.remove(i);
		f(&d);
		for &x in &B {
			let mut ins = enc.to_vec();
			ins.insert(i, x);
			f(&ins);
		}
	}
	for &x in &B {
		let mut e = enc.to_vec();
		e.push(x);
		f(&e);
	}
	// count tampering: replace the byte at each position by a multi-byte compact
	for &i in &positions {
		for c in [64u128, 16383, 16384, (1 << 30) - 1, 1 << 30, u32::MAX as u128, (u32::MAX as u128) + 1] {
			let mut e = enc[..i].to_vec();
			refmodel::enc_compact(c, &mut e);
			e.extend_from_slice(&enc[i + 1..]);
			f(&e);
		}
	}
	if pairs && n <= 12 {
		for i in 0..n {
			for j in i + 1..n {
				let (oi, oj) = (buf[i], buf[j]);
				for &x in &B {
					for &y in &B {
						if x != oi && y != oj {
							buf[i] = x;
							buf[j] = y;
							f(&buf);
						}
					}
				}
				buf[i] = oi;
				buf[j] = oj;
			}
		}
	}
}

pub fn run(tier: Tier, reg: &[VT]) -> Report {
	let mut rep = Report::new("C03", tier);

	// (a) all byte strings up to length L over the full alphabet, lazily pruned
	let l_all = if tier.thorough() { 3 } else { 2 };
	let all_types: Vec<&VT> = reg.iter().collect();
	let acc = explore_all("C03", "C03.bytes", node, &all_types, &ALL, l_all, u64::MAX, false);
	rep.part(
		"(a) all-bytes",
		&format!("every byte string of length <= {} for every registry type (extensions of a decode that never looked past its input are covered by that decode)", l_all),
		acc,
	);

	// length 4 for small-alphabet types
	let small: Vec<&VT> = reg.iter().filter(|v| SMALL4.contains(&v.name)).collect();
	let l4 = if tier.thorough() { 4 } else { 3 };
	// split the first byte over work items so that one type does not serialise the run
	let items: Vec<(&VT, u8)> = small.iter().flat_map(|v| (0..=255u8).map(move |b| (*v, b))).collect();
	let acc = par(&items, |(vt, first), acc| {
		heartbeat(&format!("{} (a4) first byte {:02x}", vt.name, first));
		let shape = (vt.shape)();
		if zw_container(&shape) {
			return;
		}
		let mut ex = Explore::new("C03", node, vt, &ALL, l4, u64::MAX);
		ex.go(&mut vec![*first], acc, "C03.bytes");
	});
	rep.part("(a) small-alphabet types", &format!("every byte string of length 1..={} for {} small-alphabet types", l4, small.len()), acc);

	// (b) deep exploration over the reduced alphabet B, iterative deepening under a run cap
	let (max_d, cap) = if tier.thorough() { (7usize, 4_000_000u64) } else { (4usize, 60_000u64) };
	let depth_stats = std::sync::Mutex::new((usize::MAX, 0usize, 0u64));
	let acc = par(reg, |vt, acc| {
		heartbeat(&format!("{} (b)", vt.name));
		let shape = (vt.shape)();
		if zw_container(&shape) {
			acc.add("b_skipped_zero_width_containers", 1);
			return;
		}
		let mut covered = 0;
		// iterative deepening: a depth counts as covered only if it completed under the cap
		for d in 1..=max_d {
			let mut scratch = Acc::default();
			let mut ex = Explore::new("C03", node, vt, &B, d, cap);
			ex.go(&mut vec![], &mut scratch, "C03.bytes");
			let capped = ex.capped;
			if !capped {
				covered = d;
			}
			let last = capped || d == max_d || ex.per_depth[d] == 0;
			if last {
				// count the deepest completed (or capped) pass only: earlier passes are its prefixes
				acc.merge(scratch);
				if capped {
					acc.add("b_types_capped", 1);
				}
				break;
			} else {
				// violations found in shallower passes are re-found by deeper ones; keep none twice
				scratch.violations.clear();
			}
		}
		let mut g = depth_stats.lock().unwrap();
		g.0 = g.0.min(covered);
		g.1 = g.1.max(covered);
		g.2 += 1;
	});
	let (dmin, dmax, _) = *depth_stats.lock().unwrap();
	if acc.extra.get("b_types_capped").copied().unwrap_or(0) > 0 {
		rep.caps.push(format!(
			"(b) run cap {} per type hit for {} types; minimum fully covered depth over all types = {}, maximum = {}",
			cap,
			acc.extra["b_types_capped"],
			dmin,
			dmax
		));
	}
	rep.part("(b) reduced-alphabet deep", &format!("lazy DFS over the 20-byte alphabet B to depth {} by iterative deepening, cap {} runs per type", max_d, cap), acc);

	// (c) deviation neighbourhoods of valid encodings
	let b = domain::Bound::small();
	let pairs = tier.thorough();
	let acc = par(reg, |vt, acc| {
		heartbeat(&format!("{} (c)", vt.name));
		let shape = (vt.shape)();
		if zw_container(&shape) {
			return;
		}
		let vals: Vec<Value> = if tier.thorough() { domain::values(&shape, &b) } else { domain::reduced(&shape) };
		let vals: Vec<Value> = vals.into_iter().take(if tier.thorough() { 64 } else { 6 }).collect();
		for v in vals {
			let Ok(enc) = ref_enc(&shape, &v) else { continue };
			if enc.len() > 300 {
				continue;
			}
			mutations(&enc, pairs, &mut |m| {
				acc.evaluations += 1;
				acc.transitions += 1;
				match check_decode(vt, &shape, m) {
					Ok(class) => {
						acc.states += 1;
						acc.traces += 1;
						acc.nontrivial += 1;
						acc.outcome(class);
					},
					Err(detail) => acc.violate(Violation {
						property: "C03".into(),
						sub: "C03.bytes".into(),
						key: format!("C03|{}|decode-vs-reference", vt.name),
						detail,
						case: decode_case("C03.bytes", vt, m),
					}),
				}
			});
		}
	});
	rep.part(
		"(c) deviations",
		"every single-byte substitution (255 values), deletion, truncation, insertion of a B byte and count tampering at every position of valid encodings (thorough: also pairs over B on encodings <= 12 bytes)",
		acc,
	);

	// (e) foreign encodings: every type decodes the valid encodings of *every leaf type's* boundary
	// values (over-wide compacts, tags of other types, longer integers), compared with the reference
	let mut pool: Vec<Vec<u8>> = vec![];
	{
		let pb = domain::Bound { seq_len: 2, full16: false, cap: 300, big_fills: false };
		let mut seen = std::collections::BTreeSet::new();
		for vt in reg.iter().filter(|v| v.class == "leaf" || v.class == "bits" || v.core) {
			let shape = (vt.shape)();
			for v in domain::values(&shape, &pb) {
				if let Ok(e) = ref_enc(&shape, &v) {
					if e.len() <= 40 && seen.insert(e.clone()) {
						pool.push(e);
					}
				}
			}
		}
	}
	let pool_len = pool.len();
	let acc = par(reg, |vt, acc| {
		heartbeat(&format!("{} (e)", vt.name));
		let shape = (vt.shape)();
		if zw_container(&shape) {
			return;
		}
		for x in &pool {
			acc.evaluations += 1;
			acc.transitions += 1;
			match check_decode(vt, &shape, x) {
				Ok(class) => {
					acc.states += 1;
					acc.traces += 1;
					acc.nontrivial += 1;
					acc.outcome(class);
				},
				Err(detail) => acc.violate(Violation {
					property: "C03".into(),
					sub: "C03.bytes".into(),
					key: format!("C03|{}|decode-vs-reference", vt.name),
					detail,
					case: decode_case("C03.bytes", vt, x),
				}),
			}
		}
	});
	rep.part("(e) foreign encodings", &format!("every registry type decodes a pool of {} distinct valid encodings of all leaf and core types' boundary values", pool_len), acc);

	// (d) hostile cases that need bulk data to distinguish accept from "ran out"
	let mut acc = Acc::default();
	for name in ["BitVec<u8, Lsb0>", "BitVec<u64, Msb0>", "BitBox<u32, Lsb0>"] {
		let vt = find_vt(reg, name);
		let shape = (vt.shape)();
		let mut bytes = vec![];
		refmodel::enc_compact(1 << 29, &mut bytes);
		bytes.resize(bytes.len() + (1 << 26), 0);
		acc.evaluations += 1;
		acc.transitions += 1;
		match check_decode(vt, &shape, &bytes) {
			Ok(class) => {
				acc.states += 1;
				acc.traces += 1;
				acc.nontrivial += 1;
				acc.outcome(&format!("2^29-bits:{}", class));
			},
			Err(detail) => acc.violate(Violation {
				property: "C03".into(),
				sub: "C03.bits29".into(),
				key: format!("C03|{}|bit-count-2^29", vt.name),
				detail,
				case: json!({"sub": "C03.bits29", "type": name}),
			}),
		}
	}
	rep.part("(d) bit count 2^29 with 64 MiB of data", "must be rejected although the data is present", acc);

	rep.rule = "stateless DFS over the answers of the input environment: a node is a byte string decoded as a complete input by the real decoder and by the reference decoder; \
		children are explored iff either decoder looked past the end (failed read or remaining-length query), otherwise the node's outcome is final for all extensions; \
		plus deviation neighbourhoods of valid encodings. non-trivial = non-empty input; states = nodes compared"
		.into();
	rep.bounds = json!({"types": reg.len(), "full_alphabet_depth": l_all, "small_alphabet_types_depth": l4, "reduced_alphabet_depth": max_d, "run_cap_per_type": cap, "pairs": pairs});
	rep.assumptions = vec![
		"decoders are deterministic functions of the answers of their input (no other state), which is what makes lazy pruning sound".into(),
		"the reference decoder accepts unsorted/duplicate map keys and non-zero padding bits, which the property does not list as malformed".into(),
	];
	rep
}

pub fn replay(reg: &[VT], case: &Json) -> Option<String> {
	match case["sub"].as_str().unwrap() {
		"C03.bytes" => {
			let vt = find_vt(reg, case["type"].as_str().unwrap());
			let bytes = unhex(case["bytes"].as_str().unwrap());
			node(vt, &(vt.shape)(), &bytes).err()
		},
		"C03.bits29" => {
			let vt = find_vt(reg, case["type"].as_str().unwrap());
			let mut bytes = vec![];
			refmodel::enc_compact(1 << 29, &mut bytes);
			bytes.resize(bytes.len() + (1 << 26), 0);
			check_decode(vt, &(vt.shape)(), &bytes).err()
		},
		_ => None,
	}
}

#!/usr/bin/env python3
"""Rewrites /verif/seeded/README.md from the meta.json files of all kept seeded changes."""
import json, os, glob

root = "/verif/seeded"
rounds = {"r1": [], "r2": [], "r3": [], "r4": [], "r5": []}
for d in sorted(glob.glob(f"{root}/*/meta.json")):
    name = os.path.basename(os.path.dirname(d))
    m = json.load(open(d))
    rnd = m.get("round", "r1")
    rounds.setdefault(rnd, []).append((name, m))

out = ["# Seeded property-breaking changes", ""]
out.append(
    "Changes to paritytech/parity-scale-codec written by independent sub-agents that were given only the text of one "
    "property, a scratch worktree of the repository (nothing from /verif) and, from round 2 on, the list of ideas already "
    "used. Each was confirmed in a scratch worktree before it was kept: it applies to the pinned tree, compiles, the "
    "repository's suite still passes with it (204 passed + the 3 always-failing UI tests), and its demonstration "
    "(`demo.rs`, an integration test; `demo.sh` for C17) fails with it and passes without it. None of them is ever committed "
    "to /repo: `git -C /repo apply seeded/<dir>/patch.diff`, run `./check <ID> --tier quick`, `git -C /repo checkout -- .` "
    "(`tools/recheck_seeded.sh` does exactly that). `meta.json` records what was run and observed, on the first run and now."
)
out.append("")
titles = {
    "r1": "Round 1 (40 changes; directories `<ID>-<n>`)",
    "r2": "Round 2 (40 changes; directories `r2-<ID>-<n>`; agents told which ideas were used in round 1)",
    "r3": "Round 3 (32 changes; directories `r3-<ID>-<n>`; agents told which ideas were used in rounds 1 and 2)",
    "r4": "Round 4 (8 changes for the properties with the lowest first-contact rates; directories `r4-<ID>-<n>`)",
    "r5": "Round 5 (3 changes, session 3; directories `r5-<ID>-<n>`; a fourth agent, for C19, found no change left that is valid, realistic and new)",
}
tot = 0
for rnd in ("r1", "r2", "r3", "r4", "r5"):
    items = rounds.get(rnd, [])
    if not items:
        continue
    tot += len(items)
    own_first = sum(1 for n, m in items if "first run" in m.get("history", "") and "missed" not in m.get("history", "") and "first run:" not in m.get("history", ""))
    out.append(f"## {titles[rnd]}")
    out.append("")
    out.append("| change | needs to manifest | caught by (quick tier) | history |")
    out.append("|---|---|---|---|")
    for name, m in items:
        out.append(f"| {name} | {m['needs_to_manifest']} | {', '.join(m['caught_by'])} | {m.get('history', '')} |")
    out.append("")
out.append("`PROMPT_example_round3_C12.txt` and `PROMPT_example_round4_C13.txt` are two of the task descriptions the sub-agents received, verbatim (the others differ in the property text and the list of ideas already used).")
out.append("")
out.append(f"{tot} changes in total. DESIGN.md section 8 discusses what each miss taught and what was changed in the machinery.")
open(f"{root}/README.md", "w").write("\n".join(out) + "\n")
print("written", tot)

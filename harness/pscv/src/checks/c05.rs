//! C05 — derived codecs implement the declared layout for every type definition.

use crate::{checks::c02, checks::c03, common::*, oracle::*};
use refmodel::{domain, ref_enc, EncErr, Shape, Value};
use serde_json::{json, Value as Json};
use subjects::vt::VT;

fn derived(reg: &[VT]) -> Vec<&VT> {
	reg.iter().filter(|v| v.class == "derived").collect()
}

/// All four `Encode` entry points (and the size-only computation) agree with the reference.
pub fn entry_points(vt: &VT, shape: &Shape, v: &Value) -> Result<(), String> {
	let Ok(want) = ref_enc(shape, v) else { return Ok(()) };
	let e = guarded(|| (vt.encode_all)(v)).map_err(|p| format!("an encode entry point panicked: {}", p))?;
	if shape.order_free() {
		return Ok(());
	}
	for (name, got) in [
		("encode", &e.encode),
		("encode_to(Vec)", &e.encode_to_vec),
		("encode_to(dyn Output)", &e.encode_to_dyn),
		("encode_to(io::Write)", &e.encode_to_io),
		("using_encoded", &e.using_encoded),
	] {
		if *got != want {
			return Err(format!("{} yields {} but the declared layout is {}", name, hex(got), hex(&want)));
		}
	}
	if e.encoded_size != want.len() {
		return Err(format!("encoded_size = {} but the encoding has {} bytes", e.encoded_size, want.len()));
	}
	Ok(())
}

/// Skipped-variant values of a type (values without an encoding).
fn skipped_values(shape: &Shape) -> Vec<Value> {
	let mut out = vec![];
	if let Shape::Enum(_) = shape {
		for v in domain::values(shape, &domain::Bound::small()) {
			if ref_enc(shape, &v) == Err(EncErr::SkippedVariant) {
				out.push(v);
			}
		}
		out.truncate(2);
	}
	out
}

fn skip_tasks(reg: &[VT]) -> Vec<(String, Value)> {
	let mut tasks = vec![];
	for vt in derived(reg) {
		for v in skipped_values(&(vt.shape)()) {
			tasks.push((vt.name.to_string(), v));
		}
	}
	tasks
}

/// What the property says about encoding a skipped variant: no bytes, through every entry point.
fn skip_encode(vt: &VT, v: &Value) -> Result<(), String> {
	let e = guarded(|| (vt.encode_all)(v)).map_err(|p| format!("encoding a skipped variant panicked: {}", p))?;
	for (name, got) in [
		("encode", &e.encode),
		("encode_to(Vec)", &e.encode_to_vec),
		("encode_to(dyn Output)", &e.encode_to_dyn),
		("encode_to(io::Write)", &e.encode_to_io),
		("using_encoded", &e.using_encoded),
	] {
		if !got.is_empty() {
			return Err(format!("{} of a skipped variant yields {} instead of no bytes", name, hex(got)));
		}
	}
	if e.encoded_size != 0 {
		return Err(format!("encoded_size of a skipped variant = {}", e.encoded_size));
	}
	Ok(())
}

/// Worker: runs the skipped-variant encodes from task `start`; one JSON line per finished task.
/// A stack overflow kills this process; the parent attributes it to the task in flight.
pub fn worker(reg: &[VT], args: &[String]) -> i32 {
	let start: usize = args.first().and_then(|s| s.parse().ok()).unwrap_or(0);
	let tasks = skip_tasks(reg);
	for (i, (ty, v)) in tasks.iter().enumerate().skip(start) {
		println!("{}", json!({"start": i}));
		let vt = find_vt(reg, ty);
		let r = skip_encode(vt, v);
		println!("{}", json!({"done": i, "ok": r.is_ok(), "detail": r.err().unwrap_or_default()}));
	}
	0
}

pub fn run(tier: Tier, reg: &[VT]) -> Report {
	let mut rep = Report::new("C05", tier);
	{
		// the generated corpus consists of valid definitions only: if it no longer compiles, the derive
		// macros reject valid input (and the layout of those definitions cannot be what they declare)
		let rej = corpus_rejections();
		if !rej.is_empty() {
			let mut acc = Acc::default();
			for (def, err) in rej {
				acc.evaluations += 1;
				acc.violate(Violation {
					property: "C05".into(),
					sub: "C05.corpus".into(),
					key: "C05|generated-valid-definition-rejected".into(),
					detail: format!("a valid generated definition no longer compiles: `{}`: {}", def, err),
					case: json!({"sub": "C05.corpus", "definition": def, "error": err}),
				});
			}
			rep.part("corpus build", "the generated corpus of valid type definitions must compile against the current tree", acc);
		}
	}
	let types = derived(reg);
	let b = if tier.thorough() { domain::Bound::thorough() } else { domain::Bound::quick() };

	let acc = par(&types, |vt, acc| {
		heartbeat(vt.name);
		let shape = (vt.shape)();
		for v in domain::values(&shape, &b) {
			acc.evaluations += 1;
			acc.transitions += 8;
			let r = entry_points(vt, &shape, &v).and_then(|_| c02::roundtrip(vt, &shape, &v, &[0x5a]).map(|_| ()));
			match r {
				Ok(()) => {
					acc.states += 1;
					acc.traces += 1;
					if ref_enc(&shape, &v).map(|e| !e.is_empty()).unwrap_or(false) {
						acc.nontrivial += 1;
					}
					acc.outcome("layout-ok");
					if acc.evaluations % 4001 == 1 {
						acc.sample(json!({"type": vt.name, "value": value_short(&v), "layout": ref_enc(&shape, &v).map(|e| hex(&e)).unwrap_or_default()}));
					}
				},
				Err(detail) => acc.violate(Violation {
					property: "C05".into(),
					sub: "C05.layout".into(),
					key: format!("C05|{}|layout", vt.name),
					detail,
					case: value_case("C05.layout", vt, &v),
				}),
			}
		}
	});
	rep.part("layout", "every generated definition x boundary values: all encode entry points == reference layout computed from the definition; decode inverts, skipped fields default", acc);

	// every index byte x payloads: lazy exploration over the full alphabet
	let depth = if tier.thorough() { 3 } else { 2 };
	let acc = c03::explore_all("C05", "C05.bytes", c03::node, &types, &c03::ALL, depth, u64::MAX, true);
	rep.part("index bytes", &format!("every byte string of length <= {} (every index byte 0..=255 x payloads) decoded by every generated type vs the reference", depth), acc);

	// skipped variants: no bytes, and the call terminates (sub-process; death = non-termination)
	let tasks = skip_tasks(reg);
	let mut acc = Acc::default();
	let mut start = 0usize;
	let mut deaths = 0;
	while start < tasks.len() {
		let (code, sig, out) = spawn_worker(&["c05skip".to_string(), start.to_string()]);
		let mut in_flight: Option<usize> = None;
		for line in out.lines() {
			let Ok(j) = serde_json::from_str::<Json>(line) else { continue };
			if let Some(i) = j["start"].as_u64() {
				in_flight = Some(i as usize);
			}
			if let Some(i) = j["done"].as_u64() {
				let i = i as usize;
				in_flight = None;
				acc.evaluations += 1;
				acc.transitions += 6;
				if j["ok"].as_bool() == Some(true) {
					acc.states += 1;
					acc.traces += 1;
					acc.nontrivial += 1;
					acc.outcome("skipped-variant-empty");
				} else {
					acc.violate(Violation {
						property: "C05".into(),
						sub: "C05.skip".into(),
						key: format!("C05|{}|skipped-variant-encode", tasks[i].0),
						detail: j["detail"].as_str().unwrap_or("").to_string(),
						case: json!({"sub": "C05.skip", "type": tasks[i].0, "value": value_to_json(&tasks[i].1)}),
					});
				}
				start = i + 1;
			}
		}
		if code == Some(0) && in_flight.is_none() {
			break;
		}
		match in_flight {
			Some(i) => {
				deaths += 1;
				acc.evaluations += 1;
				acc.outcome("skipped-variant-death");
				acc.violate(Violation {
					property: "C05".into(),
					sub: "C05.skip".into(),
					key: format!("C05|{}|skipped-variant-encode", tasks[i].0),
					detail: format!(
						"encoding a value of a skipped variant does not terminate: the process died (exit {:?}, signal {:?}; stack exhaustion)",
						code, sig
					),
					case: json!({"sub": "C05.skip", "type": tasks[i].0, "value": value_to_json(&tasks[i].1)}),
				});
				start = i + 1;
			},
			None => {
				acc.notes.insert(format!("skip worker ended abnormally without a task in flight (exit {:?} signal {:?})", code, sig));
				break;
			},
		}
		if deaths > 40 {
			acc.notes.insert("more than 40 worker deaths; remaining skipped-variant tasks not run".into());
			break;
		}
	}
	acc.add("skip_tasks", tasks.len() as u64);
	rep.part("skipped variants", "encoding a value in a skipped variant yields no bytes through every entry point and terminates (run in a sub-process)", acc);

	rep.rule = "generated type definitions over the derive attribute grammar (gen/gen_derive.py: struct shapes x field attributes x generics x transparent; enum variant shapes x index sources), \
		each with a reference layout computed from the definition; case = (definition, value) or (definition, byte string); non-trivial = non-empty encoding / non-empty input"
		.into();
	rep.bounds = json!({"definitions": types.len(), "fields_max": 3, "variants_max": 3, "seq_len": b.seq_len, "byte_depth": depth});
	rep.assumptions = vec!["definitions larger than 3 fields / 3 variants (other than the 257-variant enum) are not generated".into()];
	rep
}

pub fn replay(reg: &[VT], case: &Json) -> Option<String> {
	let vt = find_vt(reg, case["type"].as_str().unwrap());
	let shape = (vt.shape)();
	match case["sub"].as_str().unwrap() {
		"C05.layout" => {
			let v = value_from_json(&case["value"]);
			entry_points(vt, &shape, &v).and_then(|_| c02::roundtrip(vt, &shape, &v, &[0x5a]).map(|_| ())).err()
		},
		"C05.bytes" => c03::node(vt, &shape, &unhex(case["bytes"].as_str().unwrap())).err(),
		"C05.skip" => {
			// run in a sub-process: the defect this guards against kills the process
			let tasks = skip_tasks(reg);
			let v = value_from_json(&case["value"]);
			let i = tasks.iter().position(|(t, x)| t == vt.name && *x == v)?;
			let (code, sig, out) = spawn_worker(&["c05skip1".to_string(), i.to_string()]);
			if code != Some(0) {
				return Some(format!("encoding a skipped variant killed the process (exit {:?} signal {:?})", code, sig));
			}
			out.lines().filter_map(|l| serde_json::from_str::<Json>(l).ok()).find(|j| j["done"].is_u64() && j["ok"] == json!(false)).map(|j| j["detail"].as_str().unwrap_or("").to_string())
		},
		_ => None,
	}
}

/// Worker for the replay of a single task.
pub fn worker_one(reg: &[VT], args: &[String]) -> i32 {
	let i: usize = args.first().and_then(|s| s.parse().ok()).unwrap_or(0);
	let tasks = skip_tasks(reg);
	let (ty, v) = &tasks[i];
	let r = skip_encode(find_vt(reg, ty), v);
	println!("{}", json!({"done": i, "ok": r.is_ok(), "detail": r.err().unwrap_or_default()}));
	0
}

//! C15 — appending to an encoded sequence equals re-encoding the whole.

use crate::{checks::c04::fast_ref, common::*, space};
use parity_scale_codec::{Encode, EncodeAppend, EncodeLike, Ref};
use refmodel::{enc_compact, ref_enc, SeqKind, Shape, Value};
use serde_json::{json, Value as Json};
use stateright::{Model, Property};
use std::collections::VecDeque;
use subjects::{derived::Pt, Subject};

pub trait Item: Subject + Encode + EncodeLike + Clone + Send + Sync + 'static {
	const NAME: &'static str;
	fn alphabet() -> [Self; 2];
}
impl Item for u8 {
	const NAME: &'static str = "u8";
	fn alphabet() -> [Self; 2] {
		[7, 0xff]
	}
}
impl Item for u32 {
	const NAME: &'static str = "u32";
	fn alphabet() -> [Self; 2] {
		[0x0403_0201, u32::MAX]
	}
}
impl Item for String {
	const NAME: &'static str = "String";
	fn alphabet() -> [Self; 2] {
		["".to_string(), "é!".to_string()]
	}
}
impl Item for Vec<u8> {
	const NAME: &'static str = "Vec<u8>";
	fn alphabet() -> [Self; 2] {
		[vec![], vec![1, 2, 3]]
	}
}
impl Item for Pt {
	const NAME: &'static str = "Pt";
	fn alphabet() -> [Self; 2] {
		[Pt { x: 1, y: 0x0302 }, Pt { x: 0xff, y: 0 }]
	}
}

#[derive(Clone, Debug, PartialEq, Eq, Hash)]
pub struct St {
	pub bytes: Vec<u8>,
	/// logical content as alphabet indices
	pub items: Vec<u8>,
	pub depth: u8,
	pub failed: bool,
}

#[derive(Clone, Debug, PartialEq, Eq, Hash)]
pub struct Act {
	pub batch: Vec<u8>,
	/// 0 = T, 1 = &T, 2 = Box<T>, 3 = Ref<T, T>
	pub form: u8,
	/// 0 = Vec<T>, 1 = VecDeque<T>
	pub target: u8,
}

pub fn apply<T: Item>(bytes: Vec<u8>, a: &Act) -> Result<Vec<u8>, String> {
	let al = T::alphabet();
	let batch: Vec<T> = a.batch.iter().map(|i| al[*i as usize].clone()).collect();
	let r = guarded(|| match (a.target, a.form) {
		(0, 0) => <Vec<T> as EncodeAppend>::append_or_new(bytes, batch.clone()),
		(0, 1) => <Vec<T> as EncodeAppend>::append_or_new(bytes, batch.iter()),
		(0, 2) => <Vec<T> as EncodeAppend>::append_or_new(bytes, batch.iter().cloned().map(Box::new).collect::<Vec<_>>()),
		(0, _) => <Vec<T> as EncodeAppend>::append_or_new(bytes, batch.iter().map(Ref::<T, T>::from).collect::<Vec<_>>()),
		(_, 0) => <VecDeque<T> as EncodeAppend>::append_or_new(bytes, batch.clone()),
		(_, 1) => <VecDeque<T> as EncodeAppend>::append_or_new(bytes, batch.iter()),
		(_, 2) => <VecDeque<T> as EncodeAppend>::append_or_new(bytes, batch.iter().cloned().map(Box::new).collect::<Vec<_>>()),
		(_, _) => <VecDeque<T> as EncodeAppend>::append_or_new(bytes, batch.iter().map(Ref::<T, T>::from).collect::<Vec<_>>()),
	});
	match r {
		Ok(Ok(b)) => Ok(b),
		Ok(Err(e)) => Err(format!("error: {}", e)),
		Err(p) => Err(format!("panic: {}", p)),
	}
}

pub fn expected<T: Item>(items: &[u8]) -> Vec<u8> {
	let al = T::alphabet();
	let vals: Vec<Value> = items.iter().map(|i| al[*i as usize].to_value()).collect();
	ref_enc(&Shape::Seq(SeqKind::Vec, Box::new(T::shape())), &Value::List(vals)).unwrap()
}

pub struct AppendModel<T: Item> {
	pub seeds: Vec<usize>,
	pub max_depth: u8,
	pub max_batch: usize,
	/// true: every (alias form, target) combination for every batch; false: a rotating schedule
	pub all_forms: bool,
	pub _p: std::marker::PhantomData<T>,
}

impl<T: Item> Model for AppendModel<T> {
	type State = St;
	type Action = Act;

	fn init_states(&self) -> Vec<St> {
		self.seeds
			.iter()
			.map(|n| {
				let items: Vec<u8> = (0..*n).map(|i| ((i * 7 + i / 3) % 2) as u8).collect();
				// the empty sequence starts from *empty input* (append_or_new's "new" branch)
				let bytes = if *n == 0 { vec![] } else { expected::<T>(&items) };
				St { bytes, items, depth: 0, failed: false }
			})
			.collect()
	}

	fn actions(&self, s: &St, out: &mut Vec<Act>) {
		if s.failed || s.depth >= self.max_depth {
			return;
		}
		for len in 0..=self.max_batch {
			for m in 0..(1u32 << len) {
				let batch: Vec<u8> = (0..len).map(|i| (m >> i & 1) as u8).collect();
				for form in 0..4u8 {
					for target in 0..2u8 {
						// alias forms and targets share one code path per call; vary them on a rotating
						// schedule instead of multiplying the branching factor by eight
						if !self.all_forms && (form + 2 * target) as usize % 8 != (s.items.len() + len + m as usize) % 8 {
							continue;
						}
						out.push(Act { batch: batch.clone(), form, target });
					}
				}
			}
		}
	}

	fn next_state(&self, s: &St, a: Act) -> Option<St> {
		let mut items = s.items.clone();
		items.extend_from_slice(&a.batch);
		match apply::<T>(s.bytes.clone(), &a) {
			Ok(bytes) => Some(St { bytes, items, depth: s.depth + 1, failed: false }),
			Err(_) => Some(St { bytes: vec![], items, depth: s.depth + 1, failed: true }),
		}
	}

	fn properties(&self) -> Vec<Property<Self>> {
		vec![Property::always("append == re-encode", |_m: &Self, s: &St| {
			// an empty model reached from empty input by empty batches encodes as `00`
			!s.failed && (s.bytes == expected::<T>(&s.items) || (s.depth == 0 && s.items.is_empty() && s.bytes.is_empty()))
		})]
	}
}

fn run_item<T: Item>(tier: Tier, rep: &mut Report) {
	let depth = if tier.thorough() { 5 } else { 4 };
	{
		// all alias forms x targets with batches of 0..=1 items
		let d = if tier.thorough() { 5 } else { 4 };
		let r = space::explore(|| AppendModel::<T> { seeds: vec![0, 63], max_depth: d, max_batch: 1, all_forms: true, _p: Default::default() });
		let mut acc = Acc::default();
		acc.states += r.unique_states;
		acc.transitions += r.generated_states;
		acc.traces += r.generated_states;
		acc.evaluations += r.generated_states;
		acc.nontrivial += r.unique_states.saturating_sub(2);
		acc.outcome(if r.counterexamples.is_empty() { "invariant-holds" } else { "counterexample" });
		for (_, path) in &r.counterexamples {
			acc.violate(Violation {
				property: "C15".into(),
				sub: "C15.hist".into(),
				key: format!("C15|{}|append-history", T::NAME),
				detail: format!("after {} appends (all alias forms) the bytes differ from the encoding of the concatenated sequence (or the call failed)", path.len()),
				case: json!({"sub": "C15.hist", "item": T::NAME, "seeds": [0, 63],
					"actions": path.iter().map(|a| json!({"batch": a.batch, "form": a.form, "target": a.target})).collect::<Vec<_>>()}),
			});
		}
		rep.part(&format!("{} all alias forms", T::NAME), "stateright BFS: batches of 0..=1 items through every (T, &T, Box<T>, Ref<T>) x (Vec, VecDeque) combination from empty input and from 63 items", acc);
	}
	for (label, seeds, d) in [
		("from empty", vec![0usize], depth),
		("across 63/64", vec![61, 62, 63, 64], 3.min(depth)),
		("across 16383/16384", vec![16381, 16382, 16383, 16384], if T::NAME == "u8" || tier.thorough() { 3 } else { 2 }),
	] {
		let mut acc = Acc::default();
		let r = space::explore(|| AppendModel::<T> { seeds: seeds.clone(), max_depth: d, max_batch: 3, all_forms: false, _p: Default::default() });
		acc.states += r.unique_states;
		acc.transitions += r.generated_states;
		acc.traces += r.generated_states;
		acc.evaluations += r.generated_states;
		acc.nontrivial += r.unique_states.saturating_sub(seeds.len() as u64);
		acc.outcome(if r.counterexamples.is_empty() { "invariant-holds" } else { "counterexample" });
		if !r.deterministic {
			acc.notes.insert(format!("{} {}: two runs disagreed on the number of states", T::NAME, label));
		}
		for (_, path) in &r.counterexamples {
			acc.violate(Violation {
				property: "C15".into(),
				sub: "C15.hist".into(),
				key: format!("C15|{}|append-history", T::NAME),
				detail: format!("after {} appends starting from seeds {:?} the bytes differ from the encoding of the concatenated sequence (or the call failed)", path.len(), seeds),
				case: json!({"sub": "C15.hist", "item": T::NAME, "seeds": seeds,
					"actions": path.iter().map(|a| json!({"batch": a.batch, "form": a.form, "target": a.target})).collect::<Vec<_>>()}),
			});
		}
		if acc.samples.is_empty() {
			acc.sample(json!({"item": T::NAME, "seeds": seeds, "depth": d, "unique_states": r.unique_states, "example_action": {"batch": [0, 1], "form": "&T", "target": "VecDeque"}}));
		}
		rep.part(&format!("{} {}", T::NAME, label), "stateright BFS: state = (encoded bytes, model items); action = append_or_new(batch of 0..=3 items, alias form, target); invariant on every state", acc);
	}
}

/// Replays a history on the real code; returns the first disagreement.
fn replay_hist<T: Item>(seed: usize, actions: &[Act]) -> Option<String> {
	let mut items: Vec<u8> = (0..seed).map(|i| ((i * 7 + i / 3) % 2) as u8).collect();
	let mut bytes = if seed == 0 { vec![] } else { expected::<T>(&items) };
	for (k, a) in actions.iter().enumerate() {
		items.extend_from_slice(&a.batch);
		match apply::<T>(bytes, a) {
			Ok(b) => bytes = b,
			Err(e) => return Some(format!("step {}: append_or_new failed: {}", k, e)),
		}
		if bytes != expected::<T>(&items) {
			return Some(format!("step {}: bytes {} != encoding of the {} items", k, hex(&bytes), items.len()));
		}
	}
	None
}

// ---- zero-sized items: counts around 2^30 and 2^32 ------------------------------------------

/// `append_or_new` of `k` unit items onto the encoding of `n` unit items.
pub fn unit_append(n: u64, k: usize, from_empty: bool) -> Result<Vec<u8>, String> {
	let mut start = vec![];
	if !from_empty {
		enc_compact(n as u128, &mut start);
	}
	let r = guarded(|| <Vec<()> as EncodeAppend>::append_or_new(start, (0..k).map(|_| ())));
	match r {
		Ok(Ok(b)) => Ok(b),
		Ok(Err(e)) => Err(e.to_string()),
		Err(p) => Err(format!("panic: {}", p)),
	}
}

pub fn unit_check(n: u64, k: usize, from_empty: bool) -> Result<&'static str, String> {
	let got = unit_append(n, k, from_empty);
	let total = n as u128 + k as u128;
	if total > u32::MAX as u128 {
		match got {
			Err(_) => Ok("overflow-rejected"),
			Ok(b) => Err(format!("{} + {} unit items exceed u32::MAX but the call returned Ok({})", n, k, hex(&b))),
		}
	} else {
		let mut want = vec![];
		enc_compact(total, &mut want);
		match got {
			Ok(b) if b == want => Ok("count-updated"),
			Ok(b) => Err(format!("{} + {} unit items: got {} expected {}", n, k, hex(&b), hex(&want))),
			Err(e) => Err(format!("{} + {} unit items fit but the call failed: {}", n, k, e)),
		}
	}
}

// ---- invalid / arbitrary starts ---------------------------------------------------------------

pub fn start_check(start: &[u8]) -> Result<&'static str, String> {
	let r = guarded(|| <Vec<u8> as EncodeAppend>::append_or_new(start.to_vec(), [0xabu8, 0xcd]));
	let r = match r {
		Ok(x) => x.map_err(|e| e.to_string()),
		Err(p) => return Err(format!("append_or_new panicked on start {}: {}", hex(start), p)),
	};
	if start.is_empty() {
		return match r {
			Ok(b) if b == vec![8, 0xab, 0xcd] => Ok("new"),
			other => Err(format!("empty start: {:?}", other)),
		};
	}
	match fast_ref(32, start) {
		None => match r {
			Err(_) => Ok("invalid-start-rejected"),
			Ok(b) => Err(format!("start {} is not a valid count prefix but the call returned Ok({})", hex(start), hex(&b))),
		},
		Some((count, used)) => {
			if count + 2 > u32::MAX as u128 {
				return match r {
					Err(_) => Ok("overflow-rejected"),
					Ok(b) => Err(format!("count overflow accepted: {}", hex(&b))),
				};
			}
			let mut want = vec![];
			enc_compact(count + 2, &mut want);
			want.extend_from_slice(&start[used..]);
			want.extend_from_slice(&[0xab, 0xcd]);
			match r {
				Ok(b) if b == want => Ok("valid-start-extended"),
				Ok(b) => Err(format!("start {}: got {} expected {}", hex(start), hex(&b), hex(&want))),
				Err(e) => Err(format!("start {} begins with a valid count but was rejected: {}", hex(start), e)),
			}
		},
	}
}

pub fn run(tier: Tier) -> Report {
	let mut rep = Report::new("C15", tier);
	run_item::<u8>(tier, &mut rep);
	run_item::<u32>(tier, &mut rep);
	run_item::<String>(tier, &mut rep);
	run_item::<Vec<u8>>(tier, &mut rep);
	run_item::<Pt>(tier, &mut rep);

	// unit items
	let mut cases: Vec<(u64, usize, bool)> = vec![];
	for n in (0..=4u64).chain(61..=65).chain(16381..=16385).chain((1 << 30) - 3..=(1 << 30) + 1).chain((1u64 << 32) - 5..=(1u64 << 32) - 1) {
		for k in [0usize, 1, 2, 3, 4] {
			cases.push((n, k, false));
		}
		let huge: &[usize] = if tier.thorough() { &[(1 << 32) - 1, 1 << 32, (1 << 32) + 1, (1 << 33) + 1] } else { &[(1 << 32) - 1, 1 << 32, (1 << 32) + 1] };
		for k in huge {
			cases.push((n, *k, false));
		}
	}
	for k in [0usize, 1, 63, 64, 16383, 16384, (1 << 30) - 1, 1 << 30, (1 << 32) - 1, 1 << 32, (1 << 32) + 1] {
		cases.push((0, k, true));
	}
	for n in [0u64, 1, 60, 63, 64, 16000, 16383, 16384] {
		for k in [60usize, 64, 16320, 16384, 20000, (1 << 30) - 64, 1 << 30, (1 << 30) + 5] {
			cases.push((n, k, false));
		}
	}
	let acc = par(&cases, |(n, k, fe), acc| {
		acc.evaluations += 1;
		acc.transitions += 1;
		match unit_check(*n, *k, *fe) {
			Ok(class) => {
				acc.states += 1;
				acc.traces += 1;
				acc.nontrivial += 1;
				acc.outcome(class);
			},
			Err(detail) => acc.violate(Violation {
				property: "C15".into(),
				sub: "C15.unit".into(),
				key: if (*n as u128 + *k as u128) > u32::MAX as u128 { "C15|()|count-overflow-not-reported".into() } else { "C15|()|unit-append".into() },
				detail,
				case: json!({"sub": "C15.unit", "n": n, "k": k, "from_empty": fe}),
			}),
		}
	});
	rep.part("unit items", "zero-sized items: existing counts on and around 63/64, 2^14, 2^30, 2^32 x batch lengths 0..4 and 2^32-1, 2^32, 2^32+1; overflow must be an error", acc);

	// one batch that jumps over one or two prefix widths at once (1 -> 4 bytes, 2 -> 5 bytes, ...)
	let mut jumps: Vec<(usize, usize, u8)> = vec![];
	for old in [0usize, 1, 3, 62, 63, 64, 100, 16383, 16384] {
		for k in [61usize, 62, 63, 64, 16320, 16381, 16383, 16384, 20000] {
			for ty in 0..3u8 {
				jumps.push((old, k, ty));
			}
		}
	}
	let acc = par(&jumps, |(old, k, ty), acc| {
		fn one<T: Item>(old: usize, k: usize) -> Result<(), String> {
			let al = T::alphabet();
			let items: Vec<u8> = (0..old + k).map(|i| ((i * 5 + i / 7) % 2) as u8).collect();
			let start = if old == 0 { vec![0u8] } else { expected::<T>(&items[..old]) };
			let batch: Vec<T> = items[old..].iter().map(|i| al[*i as usize].clone()).collect();
			let got = guarded(|| <Vec<T> as EncodeAppend>::append_or_new(start, batch.iter()))
				.map_err(|p| format!("{} items + batch of {}: panicked: {}", old, k, p))?
				.map_err(|e| format!("{} items + batch of {}: failed: {}", old, k, e))?;
			if got != expected::<T>(&items) {
				return Err(format!("{} {} items + one batch of {}: bytes differ from the encoding of the {} items (got {} bytes, prefix {})", T::NAME, old, k, old + k, got.len(), hex(&got[..got.len().min(6)])));
			}
			Ok(())
		}
		acc.evaluations += 1;
		acc.transitions += 1;
		let r = match ty {
			0 => one::<u8>(*old, *k),
			1 => one::<u32>(*old, *k),
			_ => one::<String>(*old, *k),
		};
		match r {
			Ok(()) => {
				acc.states += 1;
				acc.traces += 1;
				acc.nontrivial += 1;
				acc.outcome("width-jump-ok");
			},
			Err(detail) => acc.violate(Violation {
				property: "C15".into(),
				sub: "C15.jump".into(),
				key: "C15|append-width-jump".into(),
				detail,
				case: json!({"sub": "C15.jump", "old": old, "k": k, "ty": ty}),
			}),
		}
	});
	rep.part("width jumps", "an existing sequence of 0..16384 items receiving one batch of 61..20000 items (u8, u32, String): the count prefix may widen by more than one step at once", acc);

	// starts
	let mut starts: Vec<Vec<u8>> = vec![vec![]];
	for a in 0..=255u8 {
		starts.push(vec![a]);
		for b in 0..=255u8 {
			starts.push(vec![a, b]);
		}
	}
	for a in [0x02u8, 0x06, 0xfe, 0x03, 0x07, 0x0b, 0xff] {
		for fill in [0u8, 1, 0x40, 0xff] {
			for top in [0u8, 1, 0x3f, 0x40, 0xff] {
				starts.push(vec![a, fill, fill, top]);
				starts.push(vec![a, fill, fill, fill, top]);
				starts.push(vec![a, fill, fill, fill, top, 9, 9]);
			}
		}
	}
	let acc = par(&starts, |s, acc| {
		acc.evaluations += 1;
		acc.transitions += 1;
		match start_check(s) {
			Ok(class) => {
				acc.states += 1;
				acc.traces += 1;
				if !s.is_empty() {
					acc.nontrivial += 1;
				}
				acc.outcome(class);
			},
			Err(detail) => acc.violate(Violation {
				property: "C15".into(),
				sub: "C15.start".into(),
				key: "C15|Vec<u8>|start".into(),
				detail,
				case: json!({"sub": "C15.start", "start": hex_full(s)}),
			}),
		}
	});
	rep.part("starts", "every 1- and 2-byte start and 4/5-byte boundary starts: accepted iff it begins with a canonical Compact<u32>, then count and payload are as expected", acc);

	rep.rule = "explicit-state BFS (stateright) over append histories: a state is (encoded bytes, model items, depth), reached by real append_or_new calls; \
		the invariant bytes == reference encoding of the model is evaluated in every state; depth is part of the key; each model is run twice comparing state counts. \
		non-trivial = states with at least one action in their history"
		.into();
	rep.bounds = json!({"batch_max": 3, "alphabet": 2, "depth": if tier.thorough() { 5 } else { 4 }, "seed_lengths": [0, 61, 62, 63, 64, 16381, 16382, 16383, 16384]});
	rep
}

pub fn replay(case: &Json) -> Option<String> {
	match case["sub"].as_str().unwrap() {
		"C15.unit" => unit_check(case["n"].as_u64().unwrap(), case["k"].as_u64().unwrap() as usize, case["from_empty"].as_bool().unwrap()).err(),
		"C15.start" => start_check(&unhex(case["start"].as_str().unwrap())).err(),
		"C15.jump" => {
			let (old, k) = (case["old"].as_u64().unwrap() as usize, case["k"].as_u64().unwrap() as usize);
			fn one<T: Item>(old: usize, k: usize) -> Option<String> {
				let al = T::alphabet();
				let items: Vec<u8> = (0..old + k).map(|i| ((i * 5 + i / 7) % 2) as u8).collect();
				let start = if old == 0 { vec![0u8] } else { expected::<T>(&items[..old]) };
				let batch: Vec<T> = items[old..].iter().map(|i| al[*i as usize].clone()).collect();
				match guarded(|| <Vec<T> as EncodeAppend>::append_or_new(start, batch.iter())) {
					Ok(Ok(got)) if got == expected::<T>(&items) => None,
					Ok(Ok(_)) => Some("bytes differ from the encoding of the concatenated sequence".into()),
					Ok(Err(e)) => Some(format!("failed: {}", e)),
					Err(p) => Some(format!("panicked: {}", p)),
				}
			}
			match case["ty"].as_u64().unwrap() {
				0 => one::<u8>(old, k),
				1 => one::<u32>(old, k),
				_ => one::<String>(old, k),
			}
		},
		"C15.hist" => {
			let acts: Vec<Act> = case["actions"]
				.as_array()
				.unwrap()
				.iter()
				.map(|a| Act {
					batch: a["batch"].as_array().unwrap().iter().map(|x| x.as_u64().unwrap() as u8).collect(),
					form: a["form"].as_u64().unwrap() as u8,
					target: a["target"].as_u64().unwrap() as u8,
				})
				.collect();
			let seeds: Vec<usize> = case["seeds"].as_array().unwrap().iter().map(|x| x.as_u64().unwrap() as usize).collect();
			for seed in seeds {
				let r = match case["item"].as_str().unwrap() {
					"u8" => replay_hist::<u8>(seed, &acts),
					"u32" => replay_hist::<u32>(seed, &acts),
					"String" => replay_hist::<String>(seed, &acts),
					"Vec<u8>" => replay_hist::<Vec<u8>>(seed, &acts),
					_ => replay_hist::<Pt>(seed, &acts),
				};
				if r.is_some() {
					return r;
				}
			}
			None
		},
		_ => None,
	}
}

//! `pscv <ID> --tier quick|thorough [--replay <file>]` — model-checking harness for
//! parity-scale-codec (see /verif/DESIGN.md).

mod alloc;
mod checks;
mod common;
mod oracle;
mod space;
mod wrapm;

use common::*;

#[global_allocator]
static GLOBAL: alloc::Counting = alloc::Counting;
use std::process::Command;

/// Properties for which the death of the checking process is itself a violation: every check that
/// calls the codec in-process. Each of these properties requires the calls it makes to return (a
/// value or an error); a segmentation fault, abort or stack overflow of the real code is never
/// acceptable behaviour, and on the unchanged tree no check dies. C17 and C20 only drive rustc / cargo.
const DEATH_IS_VIOLATION: &[&str] = &[
	"C01", "C02", "C03", "C04", "C05", "C06", "C07", "C08", "C09", "C10", "C11", "C12", "C13", "C14", "C15", "C16", "C18", "C19",
];

fn usage() -> ! {
	eprintln!("usage: pscv <C01..C20> [--tier quick|thorough] [--replay <file>]");
	std::process::exit(2)
}

fn run_check(id: &str, tier: Tier) -> i32 {
	let reg = common::registry();
	let rep = match id {
		"C01" => checks::c01::run(tier, &reg),
		"C02" => checks::c02::run(tier, &reg),
		"C03" => checks::c03::run(tier, &reg),
		"C04" => checks::c04::run(tier),
		"C05" => checks::c05::run(tier, &reg),
		"C06" => checks::c06::run(tier, &reg),
		"C07" => checks::c07::run(tier, &reg),
		"C08" => checks::c08::run(tier, &reg),
		"C09" => checks::c09::run(tier, &reg),
		"C11" => checks::c11::run(tier, &reg),
		"C12" => checks::c12::run(tier, &reg),
		"C10" => checks::c10::run(tier),
		"C13" => checks::c13::run(tier, &reg),
		"C14" => checks::c14::run(tier, &reg),
		"C15" => checks::c15::run(tier),
		"C16" => checks::c16::run(tier, &reg),
		"C17" => checks::c17::run(tier),
		"C18" => checks::c18::run(tier, &reg),
		"C19" => checks::c19::run(tier, &reg),
		"C20" => checks::c20::run(tier),
		_ => {
			eprintln!("unknown property {}", id);
			return 2;
		},
	};
	rep.finish()
}

fn run_replay(id: &str, path: &str) -> i32 {
	let reg = common::registry();
	let text = std::fs::read_to_string(path).expect("replay file readable");
	let j: serde_json::Value = serde_json::from_str(&text).expect("replay file parses");
	let case = &j["case"];
	let sub = case["sub"].as_str().unwrap_or("");
	let r = match sub.split('.').next().unwrap_or("") {
		"C01" => checks::c01::replay(&reg, case),
		"C02" => checks::c02::replay(&reg, case),
		"C03" => checks::c03::replay(&reg, case),
		"C04" => checks::c04::replay(case),
		"C05" => checks::c05::replay(&reg, case),
		"C06" => checks::c06::replay(&reg, case),
		"C07" => checks::c07::replay(&reg, case),
		"C08" => checks::c08::replay(&reg, case),
		"C09" => checks::c09::replay(&reg, case),
		"C11" => checks::c11::replay(&reg, case),
		"C12" => checks::c12::replay(&reg, case),
		"C10" => checks::c10::replay(case),
		"C13" => checks::c13::replay(&reg, case),
		"C14" => checks::c14::replay(&reg, case),
		"C15" => checks::c15::replay(case),
		"C16" => checks::c16::replay(&reg, case),
		"C17" => checks::c17::replay(case),
		"C18" => checks::c18::replay(&reg, case),
		"C19" => checks::c19::replay(&reg, case),
		"C20" => checks::c20::replay(case),
		_ => {
			eprintln!("no replayer for sub-check {}", sub);
			return 2;
		},
	};
	match r {
		Some(detail) => {
			eprintln!("[{}] replay reproduces: {}", id, detail);
			println!("VIOLATION property={} replay={}", id, path);
			1
		},
		None => {
			eprintln!("[{}] replay: property holds on this case", id);
			0
		},
	}
}

fn main() {
	let args: Vec<String> = std::env::args().skip(1).collect();
	if args.is_empty() {
		usage();
	}
	if args[0] == "--worker" {
		silence_panics();
		let reg = common::registry();
		let code = match args.get(1).map(|s| s.as_str()) {
			Some("c05skip") => checks::c05::worker(&reg, &args[2..]),
			Some("c05skip1") => checks::c05::worker_one(&reg, &args[2..]),
			Some("c11deep") => checks::c11::worker(&args[2..]),
			Some("c09") => {
				heartbeat_init_keep("C09");
				checks::c09::worker(&reg, &args[2..])
			},
			_ => 2,
		};
		std::process::exit(code);
	}
	let mut child = false;
	let mut id = String::new();
	let mut tier = match std::env::var("VERIF_TIER").as_deref() {
		Ok("thorough") => Tier::Thorough,
		_ => Tier::Quick,
	};
	let mut replay: Option<String> = None;
	let mut i = 0;
	while i < args.len() {
		match args[i].as_str() {
			"--child" => child = true,
			"--tier" => {
				i += 1;
				tier = match args.get(i).map(|s| s.as_str()) {
					Some("quick") => Tier::Quick,
					Some("thorough") => Tier::Thorough,
					_ => usage(),
				}
			},
			"--replay" => {
				i += 1;
				replay = Some(args.get(i).cloned().unwrap_or_else(|| usage()));
			},
			s if s.starts_with('C') => id = s.to_string(),
			_ => usage(),
		}
		i += 1;
	}
	if id.is_empty() {
		usage();
	}

	if child {
		silence_panics();
		heartbeat_init(&id);
		let code = match &replay {
			Some(p) => run_replay(&id, p),
			None => run_check(&id, tier),
		};
		std::process::exit(code);
	}

	// Parent: run the check in a child process so that a death by signal can be attributed.
	let exe = std::env::current_exe().expect("own path");
	let mut cmd = Command::new(exe);
	cmd.arg("--child").arg(&id).arg("--tier").arg(tier.name());
	if let Some(p) = &replay {
		cmd.arg("--replay").arg(p);
	}
	// Watchdog: a check that does not come back is a machinery failure, except where the property
	// itself demands termination (then the units in flight are reported as a violation).
	let limit_s: u64 = std::env::var("VERIF_WATCHDOG_S")
		.ok()
		.and_then(|s| s.parse().ok())
		.unwrap_or(if tier.thorough() { 6 * 3600 } else { 1500 });
	let mut child_proc = cmd.spawn().expect("spawn child");
	let started = std::time::Instant::now();
	let mut timed_out = false;
	let status = loop {
		match child_proc.try_wait().expect("wait for child") {
			Some(st) => break st,
			None => {
				if started.elapsed().as_secs() > limit_s {
					timed_out = true;
					let _ = child_proc.kill();
					break child_proc.wait().expect("wait for killed child");
				}
				std::thread::sleep(std::time::Duration::from_millis(50));
			},
		}
	};
	// 0 / 1 / 2 are the check's own verdicts. Anything else (101: a panic outside the guarded calls, e.g. the
	// harness choking on a value the subject must never produce, like a `String` that is not UTF-8) is
	// handled like a death: on the unchanged tree no check ends that way.
	let mut abnormal_exit: Option<i32> = None;
	if !timed_out {
		if let Some(code) = status.code() {
			if matches!(code, 0 | 1 | 2) {
				std::process::exit(code);
			}
			abnormal_exit = Some(code);
		}
	}
	// killed by a signal (or by the watchdog)
	use std::os::unix::process::ExitStatusExt;
	let sig = if timed_out { 0 } else { status.signal().unwrap_or(0) };
	if timed_out {
		eprintln!("[{}] watchdog: no result after {} s", id, limit_s);
	}
	let mut units = vec![];
	if let Ok(rd) = std::fs::read_dir(format!("{}/target/hb/{}", verif_root(), id)) {
		for e in rd.flatten() {
			if let Ok(s) = std::fs::read_to_string(e.path()) {
				units.push(s);
			}
		}
	}
	units.sort();
	match abnormal_exit {
		Some(code) => eprintln!("[{}] checking process ended abnormally with exit code {}; units in flight: {:?}", id, code, units),
		None => eprintln!("[{}] checking process died with signal {}; units in flight: {:?}", id, sig, units),
	}
	if DEATH_IS_VIOLATION.contains(&id.as_str()) && replay.is_none() {
		let body = serde_json::json!({
			"property": id, "sub": format!("{}.death", id), "key": format!("{}|process-death", id),
			"detail": if timed_out { format!("the check did not terminate within {} s (a decode that does not return)", limit_s) } else if let Some(code) = abnormal_exit { format!("checking process ended abnormally with exit code {} (a panic outside the guarded calls)", code) } else { format!("checking process died with signal {}", sig) },
			"case": {"sub": format!("{}.death", id), "units_in_flight": units, "tier": tier.name()},
		});
		let dir = format!("{}/replays/{}", verif_root(), id);
		let _ = std::fs::create_dir_all(&dir);
		let path = if timed_out { format!("{}/no-termination.json", dir) } else if let Some(code) = abnormal_exit { format!("{}/death-exit-{}.json", dir, code) } else { format!("{}/death-signal-{}.json", dir, sig) };
		let _ = std::fs::write(&path, serde_json::to_string_pretty(&body).unwrap());
		println!("VIOLATION property={} replay={}", id, path);
		std::process::exit(1);
	}
	std::process::exit(2);
}

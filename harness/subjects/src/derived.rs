//! Derived subject types. Hand-written helpers live here; the generated corpus is in
//! `derived_gen.rs` (written by /verif/gen/gen_derive.py).

use crate::{vt::VT, Subject};
use parity_scale_codec::{Decode, Encode, EncodeAsRef, Error, Input, Output};
use refmodel::{Shape, Value};

/// A field type with a custom `encoded_as` representation: plain derive encodes `x` then `y`,
/// `PtRev` encodes `y` then `x`.
#[derive(Clone, Debug, Default, PartialEq, Eq, PartialOrd, Ord, Encode, Decode, parity_scale_codec::DecodeWithMemTracking, parity_scale_codec::MaxEncodedLen)]
pub struct Pt {
	pub x: u8,
	pub y: u16,
}

pub struct PtRev(pub Pt);
pub struct PtRevRef<'a>(pub &'a Pt);

impl<'a> From<&'a Pt> for PtRevRef<'a> {
	fn from(p: &'a Pt) -> Self {
		PtRevRef(p)
	}
}
impl Encode for PtRevRef<'_> {
	fn encode_to<W: Output + ?Sized>(&self, dest: &mut W) {
		self.0.y.encode_to(dest);
		self.0.x.encode_to(dest);
	}
}
impl<'a> EncodeAsRef<'a, Pt> for PtRev {
	type RefType = PtRevRef<'a>;
}
impl Decode for PtRev {
	fn decode<I: Input>(input: &mut I) -> Result<Self, Error> {
		let y = u16::decode(input)?;
		let x = u8::decode(input)?;
		Ok(PtRev(Pt { x, y }))
	}
}
impl parity_scale_codec::DecodeWithMemTracking for PtRev {}
impl From<PtRev> for Pt {
	fn from(p: PtRev) -> Pt {
		p.0
	}
}
impl parity_scale_codec::MaxEncodedLen for PtRev {
	fn max_encoded_len() -> usize {
		3
	}
}
impl Encode for PtRev {
	fn encode_to<W: Output + ?Sized>(&self, dest: &mut W) {
		PtRevRef(&self.0).encode_to(dest)
	}
}

impl Subject for Pt {
	fn shape() -> Shape {
		Shape::Struct(vec![
			refmodel::Field { shape: Shape::UInt(8), skip: false },
			refmodel::Field { shape: Shape::UInt(16), skip: false },
		])
	}
	fn from_value(v: &Value) -> Self {
		match v {
			Value::List(xs) => Pt { x: u8::from_value(&xs[0]), y: u16::from_value(&xs[1]) },
			_ => panic!("bad Pt value"),
		}
	}
	fn to_value(&self) -> Value {
		Value::List(vec![self.x.to_value(), self.y.to_value()])
	}
}

pub fn ptrev_shape() -> Shape {
	Shape::Tuple(vec![Shape::UInt(16), Shape::UInt(8)])
}
pub fn ptrev_from(v: &Value) -> Pt {
	match v {
		Value::List(xs) => Pt { y: u16::from_value(&xs[0]), x: u8::from_value(&xs[1]) },
		_ => panic!("bad PtRev value"),
	}
}
pub fn ptrev_to(p: &Pt) -> Value {
	Value::List(vec![p.y.to_value(), p.x.to_value()])
}

pub fn list(v: &Value) -> &[Value] {
	match v {
		Value::List(xs) => xs,
		_ => panic!("expected a field list, got {:?}", v),
	}
}

pub fn registry() -> Vec<VT> {
	let mut v = vec![VT::base::<Pt>("Pt", "derived", true).mel::<Pt>().mem::<Pt>()];
	v.extend(gen::registry());
	v
}

#[path = "derived_gen.rs"]
mod gen;
pub use gen::*;

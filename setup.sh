#!/bin/sh
# One-time setup after a fresh restore: regenerate the generated sources and build the harness
# (release, offline) against /repo's current tree with hooks enabled.
set -eu
VERIF="$(cd "$(dirname "$0")" && pwd)"
export VERIF_ROOT="$VERIF"
export CARGO_NET_OFFLINE=true
export RUSTFLAGS="--cfg parity_scale_codec_verif"
export CARGO_TARGET_DIR="$VERIF/target/harness"
mkdir -p "$VERIF/target/logs" "$VERIF/evidence"
python3 "$VERIF/gen/gen_registry.py" "$VERIF/harness" >/dev/null
python3 "$VERIF/gen/gen_derive.py" "$VERIF/harness" >/dev/null
( cd "$VERIF/harness" && cargo build --release --offline -p pscv 2>&1 | tail -3 )
# warm the feature-matrix builds (C20) so that the first quick run is not dominated by them
( cd "$VERIF/harness_digest" && env -u RUSTFLAGS -u CARGO_TARGET_DIR cargo build --release --offline --no-default-features --features "std chain-error bit-vec bytes generic-array max-encoded-len derive" --target-dir "$VERIF/target/digest-default" 2>&1 | tail -1 ) || true
echo "setup done"

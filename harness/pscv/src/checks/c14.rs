//! C14 — encodings are self-delimiting; consume-all entry points are exact.

use crate::{checks::c03, common::*};
use refmodel::{domain, ref_enc, Shape, Value};
use serde_json::{json, Value as Json};
use subjects::vt::VT;

/// Every strict prefix of the encoding must fail to decode.
pub fn cuts(vt: &VT, shape: &Shape, v: &Value) -> Result<usize, String> {
	let Ok(enc) = ref_enc(shape, v) else { return Ok(0) };
	let enc = if shape.order_free() { guarded(|| (vt.encode)(v)).map_err(|p| format!("encode panicked: {}", p))? } else { enc };
	// long encodings: every cut near both ends, and in between at the 1 KiB steps (at most 96 of them, evenly
	// spread over the chunk boundaries, so that the work stays linear in the length)
	let ks: Vec<usize> = if enc.len() <= 600 {
		(0..enc.len()).collect()
	} else {
		let kib = enc.len() / 1024;
		let stride = (kib / 96).max(1);
		(0..40)
			.chain((1..kib).filter(|i| i % stride == 0 || *i <= 17 || kib - i <= 17).map(|i| i * 1024))
			.chain(enc.len() - 40..enc.len())
			.collect()
	};
	for k in ks {
		match guarded(|| (vt.decode)(&enc[..k])) {
			Err(p) => return Err(format!("decode of a {}-byte prefix panicked: {}", k, p)),
			Ok(Ok(d)) => {
				return Err(format!(
					"strict prefix ({} of {} bytes) of the encoding of {} decodes to {}",
					k,
					enc.len(),
					value_short(v),
					value_short(&d.value)
				))
			},
			Ok(Err(_)) => {},
		}
	}
	// the depth-limited consume-everything variant at exactly the value's nesting depth
	let d = refmodel::side::depth_all(shape, v);
	match guarded(|| (vt.decode_all_depth)(d, &enc)) {
		Err(p) => return Err(format!("decode_all_with_depth_limit({}) panicked: {}", d, p)),
		Ok(Err(e)) => return Err(format!("decode_all_with_depth_limit({}) fails ({}) on a complete encoding whose container nesting depth is {}", d, e, d)),
		Ok(Ok(got)) =>
			if shape.normalize(&got) != shape.normalize(v) {
				return Err(format!("decode_all_with_depth_limit({}) returns a different value", d));
			},
	}
	// a complete encoding followed by anything: both consume-everything entry points reject, at every limit
	// that accepts the bare encoding (the lazy byte exploration never appends to a string nobody looked past)
	for tail in [&[0u8][..], &[0xff], &[0, 0, 0, 0, 0, 0, 0, 0, 0]] {
		let mut y = enc.clone();
		y.extend_from_slice(tail);
		match guarded(|| (vt.decode_all)(&y)) {
			Err(p) => return Err(format!("decode_all panicked on encoding + {} trailing bytes: {}", tail.len(), p)),
			Ok(Ok(_)) => return Err(format!("decode_all accepts the encoding of {} followed by {} trailing bytes", value_short(v), tail.len())),
			Ok(Err(_)) => {},
		}
		for l in [d, d.saturating_add(1), u32::MAX] {
			match guarded(|| (vt.decode_all_depth)(l, &y)) {
				Err(p) => return Err(format!("decode_all_with_depth_limit({}) panicked on encoding + trailing bytes: {}", l, p)),
				Ok(Ok(_)) =>
					return Err(format!(
						"decode_all_with_depth_limit({}) accepts the encoding of {} followed by {} trailing bytes",
						l,
						value_short(v),
						tail.len()
					)),
				Ok(Err(_)) => {},
			}
		}
	}
	Ok(enc.len())
}

/// Concatenated encodings decode value by value from one slice, nothing left.
pub fn concat(parts: &[(&VT, Value)]) -> Result<usize, String> {
	let mut buf = vec![];
	for (vt, v) in parts {
		buf.extend(guarded(|| (vt.encode)(v)).map_err(|p| format!("encode panicked: {}", p))?);
	}
	let mut pos = 0;
	for (i, (vt, v)) in parts.iter().enumerate() {
		let shape = (vt.shape)();
		match guarded(|| (vt.decode)(&buf[pos..])) {
			Err(p) => return Err(format!("decode of part {} panicked: {}", i, p)),
			Ok(Err(e)) => return Err(format!("part {} ({}) of a concatenation failed to decode: {}", i, vt.name, e)),
			Ok(Ok(d)) => {
				if shape.normalize(&d.value) != shape.normalize(v) {
					return Err(format!("part {} ({}) decoded to {} instead of {}", i, vt.name, value_short(&d.value), value_short(v)));
				}
				pos += d.consumed;
			},
		}
	}
	if pos != buf.len() {
		return Err(format!("{} bytes left after decoding all parts", buf.len() - pos));
	}
	// the same stream read value by value through IoReader over readers that hand out the bytes in pieces
	// (a value straddling two pieces must not disturb its neighbours), and through an input of unknown length
	for default in [subjects::inputs::ReadChoice::One, subjects::inputs::ReadChoice::Half] {
		// one call per byte means 10^8 calls for the largest thorough-tier values: moderate buffers only
		if default == subjects::inputs::ReadChoice::One && buf.len() > (1 << 18) {
			continue;
		}
		let mut r = subjects::inputs::ChunkReader::trickle(&buf);
		r.default = default;
		for (i, (vt, v)) in parts.iter().enumerate() {
			let shape = (vt.shape)();
			match guarded(|| (vt.decode_io)(&mut r)) {
				Err(p) => return Err(format!("decode of part {} through IoReader ({:?} reads) panicked: {}", i, default, p)),
				Ok(Err(e)) => return Err(format!("part {} ({}) of a concatenation failed to decode through IoReader ({:?} reads): {}", i, vt.name, default, e)),
				Ok(Ok(d)) =>
					if shape.normalize(&d) != shape.normalize(v) {
						return Err(format!("part {} ({}) decoded through IoReader ({:?} reads) to {} instead of {}", i, vt.name, default, value_short(&d), value_short(v)));
					},
			}
		}
		if r.pos != buf.len() {
			return Err(format!("{} bytes left in the reader after decoding all parts through IoReader ({:?} reads)", buf.len() - r.pos, default));
		}
	}
	let mut nl = subjects::inputs::NoLen::new(&buf);
	for (i, (vt, v)) in parts.iter().enumerate() {
		let shape = (vt.shape)();
		match guarded(|| (vt.decode_dyn)(&mut nl)) {
			Err(p) => return Err(format!("decode of part {} from an input of unknown length panicked: {}", i, p)),
			Ok(Err(e)) => return Err(format!("part {} ({}) of a concatenation failed to decode from an input of unknown length: {}", i, vt.name, e)),
			Ok(Ok(d)) =>
				if shape.normalize(&d) != shape.normalize(v) {
					return Err(format!("part {} ({}) decoded from an input of unknown length to {} instead of {}", i, vt.name, value_short(&d), value_short(v)));
				},
		}
	}
	if nl.pos != buf.len() {
		return Err(format!("{} bytes left in the unknown-length input after decoding all parts", buf.len() - nl.pos));
	}
	Ok(buf.len())
}

/// decode_all / decode_all_with_depth_limit succeed exactly when decode succeeds with nothing left.
pub fn all_node(vt: &VT, shape: &Shape, x: &[u8]) -> Result<(&'static str, bool), String> {
	let d = guarded(|| (vt.decode)(x)).map_err(|p| format!("decode panicked: {}", p))?;
	let a = guarded(|| (vt.decode_all)(x)).map_err(|p| format!("decode_all panicked: {}", p))?;
	let l = guarded(|| (vt.decode_all_depth)(u32::MAX, x)).map_err(|p| format!("decode_all_with_depth_limit panicked: {}", p))?;
	let dl = guarded(|| (vt.decode_depth)(u32::MAX, x)).map_err(|p| format!("decode_with_depth_limit panicked: {}", p))?;
	let want: Result<&Value, ()> = match &d {
		Ok(ok) if ok.consumed == x.len() => Ok(&ok.value),
		_ => Err(()),
	};
	for (name, got) in [("decode_all", &a), ("decode_all_with_depth_limit(u32::MAX)", &l)] {
		match (got, &want) {
			(Ok(v), Ok(w)) =>
				if shape.normalize(v) != shape.normalize(w) {
					return Err(format!("{} returned {} but decode returned {}", name, value_short(v), value_short(w)));
				},
			(Err(_), Err(())) => {},
			(Ok(v), Err(())) => return Err(format!("{} accepted ({}) although decode fails or leaves input", name, value_short(v))),
			(Err(e), Ok(_)) => return Err(format!("{} failed ({}) although decode succeeds and consumes everything", name, e)),
		}
	}
	match (&d, &dl) {
		(Ok(p), Ok(q)) =>
			if p.consumed != q.consumed || shape.normalize(&p.value) != shape.normalize(&q.value) {
				return Err("decode_with_depth_limit(u32::MAX) differs from decode".into());
			},
		(Err(_), Err(_)) => {},
		_ => return Err("decode_with_depth_limit(u32::MAX) accept/reject differs from decode".into()),
	}
	let class = match (&d, &want) {
		(Ok(_), Ok(_)) => "all-consumed",
		(Ok(_), Err(())) => "ok-with-remainder",
		_ => "reject",
	};
	Ok((class, c03::open_node(vt, shape, x)))
}

pub fn run(tier: Tier, reg: &[VT]) -> Report {
	let mut rep = Report::new("C14", tier);
	let b = if tier.thorough() { domain::Bound::quick() } else { domain::Bound::small() };
	let acc = par(reg, |vt, acc| {
		heartbeat(vt.name);
		let shape = (vt.shape)();
		let mut bb = b.clone();
		bb.big_fills = vt.core || tier.thorough();
		for v in domain::values(&shape, &bb) {
			acc.evaluations += 1;
			match cuts(vt, &shape, &v) {
				Ok(n) => {
					acc.states += 1;
					acc.traces += n as u64;
					acc.transitions += n as u64;
					if n > 0 {
						acc.nontrivial += 1;
					}
					acc.outcome(if n > 0 { "all-cuts-fail" } else { "empty-encoding" });
				},
				Err(detail) => acc.violate(Violation {
					property: "C14".into(),
					sub: "C14.cut".into(),
					key: format!("C14|{}|strict-prefix", vt.name),
					detail,
					case: json!({"sub": "C14.cut", "type": vt.name, "value": value_to_json(&v)}),
				}),
			}
		}
	});
	rep.part("cut points", "every registry type x boundary value x every cut point of the encoding: strict prefixes fail", acc);

	// every registry value followed by a sentinel of another type, decoded one after the other
	let sentinels: Vec<(&VT, Value)> = vec![
		(find_vt(reg, "u16"), Value::U(0x0201)),
		(find_vt(reg, "bool"), Value::Bool(true)),
		(find_vt(reg, "()"), Value::Unit),
	];
	let acc = par(reg, |vt, acc| {
		let shape = (vt.shape)();
		let mut bb = b.clone();
		bb.big_fills = vt.core || tier.thorough();
		for v in domain::values(&shape, &bb) {
			if ref_enc(&shape, &v).is_err() {
				continue;
			}
			for (svt, sv) in &sentinels {
				let parts = [(vt, v.clone()), (*svt, sv.clone())];
				acc.evaluations += 1;
				acc.transitions += 4;
				match concat(&parts) {
					Ok(n) => {
						acc.states += 1;
						acc.traces += 1;
						if n > 0 {
							acc.nontrivial += 1;
						}
						acc.outcome("value+sentinel-ok");
					},
					Err(detail) => acc.violate(Violation {
						property: "C14".into(),
						sub: "C14.concat".into(),
						key: format!("C14|{}+{}|concatenation", vt.name, svt.name),
						detail,
						case: json!({"sub": "C14.concat", "parts": parts.iter().map(|(t, v)| json!({"type": t.name, "value": value_to_json(v)})).collect::<Vec<_>>()}),
					}),
				}
			}
		}
	});
	rep.part("value + sentinel", "every registry type x boundary value followed by a u16 / bool / () sentinel in one slice: both decode back, nothing left", acc);

	// concatenations over the core subset
	let core: Vec<&VT> = reg.iter().filter(|v| v.core).collect();
	let doms: Vec<Vec<Value>> = core
		.iter()
		.map(|vt| {
			let s = (vt.shape)();
			domain::reduced(&s).into_iter().filter(|v| ref_enc(&s, v).is_ok()).take(3).collect()
		})
		.collect();
	let idx: Vec<usize> = (0..core.len()).collect();
	let triple_set: Vec<usize> = idx.iter().copied().filter(|i| i % 4 == 0 || tier.thorough()).collect();
	let acc = par(&idx, |&i, acc| {
		for j in 0..core.len() {
			for (a, va) in doms[i].iter().enumerate() {
				for (bq, vb) in doms[j].iter().enumerate() {
					if (a + bq) % 2 == 1 && !tier.thorough() {
						continue;
					}
					let parts = [(core[i], va.clone()), (core[j], vb.clone())];
					acc.evaluations += 1;
					acc.transitions += 4;
					match concat(&parts) {
						Ok(n) => {
							acc.states += 1;
							acc.traces += 1;
							if n > 0 {
								acc.nontrivial += 1;
							}
							acc.outcome("pair-ok");
						},
						Err(detail) => acc.violate(Violation {
							property: "C14".into(),
							sub: "C14.concat".into(),
							key: format!("C14|{}+{}|concatenation", core[i].name, core[j].name),
							detail,
							case: json!({"sub": "C14.concat", "parts": parts.iter().map(|(t, v)| json!({"type": t.name, "value": value_to_json(v)})).collect::<Vec<_>>()}),
						}),
					}
				}
			}
			if triple_set.contains(&i) && triple_set.contains(&j) {
				for &k in &triple_set {
					let (Some(va), Some(vb), Some(vc)) = (doms[i].last(), doms[j].first(), doms[k].last()) else { continue };
					let parts = [(core[i], va.clone()), (core[j], vb.clone()), (core[k], vc.clone())];
					acc.evaluations += 1;
					acc.transitions += 6;
					match concat(&parts) {
						Ok(_) => {
							acc.states += 1;
							acc.traces += 1;
							acc.nontrivial += 1;
							acc.outcome("triple-ok");
						},
						Err(detail) => acc.violate(Violation {
							property: "C14".into(),
							sub: "C14.concat".into(),
							key: format!("C14|{}+{}+{}|concatenation", core[i].name, core[j].name, core[k].name),
							detail,
							case: json!({"sub": "C14.concat", "parts": parts.iter().map(|(t, v)| json!({"type": t.name, "value": value_to_json(v)})).collect::<Vec<_>>()}),
						}),
					}
				}
			}
		}
	});
	rep.part("concatenations", "all ordered pairs (and triples over a subset) of core types x reduced values, decoded one after another from one slice", acc);

	// decode_all equivalence on byte strings
	let types: Vec<&VT> = reg.iter().collect();
	let depth = if tier.thorough() { 3 } else { 2 };
	let acc = c03::explore_all("C14", "C14.all", all_node, &types, &c03::ALL, depth, u64::MAX, false);
	rep.part("decode_all (all bytes)", &format!("every byte string of length <= {} x every registry type: decode_all / decode_all_with_depth_limit(MAX) succeed iff decode succeeds with empty remainder", depth), acc);
	let (d, cap) = if tier.thorough() { (6, 1_000_000u64) } else { (4, 30_000u64) };
	let acc = c03::explore_all("C14", "C14.all", all_node, &types, &c03::B, d, cap, true);
	if acc.extra.get("types_capped").copied().unwrap_or(0) > 0 {
		rep.caps.push(format!("decode_all deep exploration: run cap {} per type hit for {} types (covered depths in part extra)", cap, acc.extra["types_capped"]));
	}
	rep.part("decode_all (reduced alphabet)", &format!("lazy DFS over the 20-byte alphabet to depth {}, cap {} runs per type", d, cap), acc);

	rep.rule = "case = (type, value, cut point) / (types, values) concatenation / (type, byte string); non-trivial = non-empty encoding or input".into();
	rep.bounds = json!({"types": reg.len(), "core_types": core.len(), "byte_depth_full": depth, "byte_depth_reduced": d});
	rep
}

pub fn replay(reg: &[VT], case: &Json) -> Option<String> {
	match case["sub"].as_str().unwrap() {
		"C14.cut" => {
			let vt = find_vt(reg, case["type"].as_str().unwrap());
			cuts(vt, &(vt.shape)(), &value_from_json(&case["value"])).err()
		},
		"C14.concat" => {
			let parts: Vec<(&VT, Value)> = case["parts"]
				.as_array()
				.unwrap()
				.iter()
				.map(|p| (find_vt(reg, p["type"].as_str().unwrap()), value_from_json(&p["value"])))
				.collect();
			concat(&parts).err()
		},
		"C14.all" => {
			let vt = find_vt(reg, case["type"].as_str().unwrap());
			all_node(vt, &(vt.shape)(), &unhex(case["bytes"].as_str().unwrap())).err()
		},
		_ => None,
	}
}

//! Side models the properties talk about: container nesting depth (C11), maximal-length witnesses
//! (C13), variant index rule and compile-accept predicate (C05/C17), saturating counter (C19).

use crate::{domain, SeqKind, Shape, Value, WrapKind};

/// Container nesting depth of a value: every heap container on a path counts 1.
pub fn depth_all(shape: &Shape, v: &Value) -> u32 {
	match (shape, v) {
		(Shape::Seq(_, e), Value::List(xs)) =>
			1 + xs.iter().map(|x| depth_all(e, x)).max().unwrap_or(0),
		(Shape::Seq(..), Value::Rep(_)) => 1,
		(Shape::Map(k, val), Value::Map(xs)) =>
			1 + xs.iter().map(|(a, c)| depth_all(k, a).max(depth_all(val, c))).max().unwrap_or(0),
		(Shape::Wrap(WrapKind::Cow, e), x) => depth_all(e, x),
		(Shape::Wrap(_, e), x) => 1 + depth_all(e, x),
		(Shape::Str, _) | (Shape::Bytes, _) | (Shape::Bits { .. }, _) => 1,
		(Shape::Option(e), Value::Some_(x)) => depth_all(e, x),
		(Shape::Result(t, _), Value::Ok_(x)) => depth_all(t, x),
		(Shape::Result(_, e), Value::Err_(x)) => depth_all(e, x),
		(Shape::Array(_, e), Value::List(xs)) => xs.iter().map(|x| depth_all(e, x)).max().unwrap_or(0),
		(Shape::Tuple(es), Value::List(xs)) =>
			es.iter().zip(xs).map(|(e, x)| depth_all(e, x)).max().unwrap_or(0),
		(Shape::Range(e), Value::List(xs)) | (Shape::RangeIncl(e), Value::List(xs)) =>
			xs.iter().map(|x| depth_all(e, x)).max().unwrap_or(0),
		(Shape::Struct(fs), Value::List(xs)) => fs
			.iter()
			.zip(xs)
			.filter(|(f, _)| !f.skip)
			.map(|(f, x)| depth_all(&f.shape, x))
			.max()
			.unwrap_or(0),
		(Shape::Enum(vs), Value::Variant(i, xs)) => vs[*i]
			.fields
			.iter()
			.zip(xs)
			.filter(|(f, _)| !f.skip)
			.map(|(f, x)| depth_all(&f.shape, x))
			.max()
			.unwrap_or(0),
		_ => 0,
	}
}

/// Flat scalar element types: a vector-backed sequence of these holds no further structure the
/// decoder would have to recurse into (today integers and floats are read in bulk; the lower bound
/// deliberately exempts every flat scalar so that extending the bulk path is not an alarm).
fn bulk_primitive(e: &Shape) -> bool {
	matches!(
		e,
		Shape::UInt(_) |
			Shape::SInt(_) | Shape::F32 |
			Shape::F64 | Shape::Bool |
			Shape::Unit | Shape::NonZeroU(_) |
			Shape::NonZeroI(_) |
			Shape::OptionBool |
			Shape::Compact(_) |
			Shape::CompactMax(..) |
			Shape::CompactUnit |
			Shape::Phantom
	)
}

/// Lower bound of the limit a value needs: the number of nested heap containers the decoder must
/// recurse through. Containers that hold plain bytes / primitive numbers in bulk (strings, byte
/// buffers, bit sequences, vectors/deques/heaps of integers or floats) do not recurse into anything
/// and may legitimately not count; empty collections are not counted either.
pub fn depth_min(shape: &Shape, v: &Value) -> u32 {
	match (shape, v) {
		(Shape::Seq(k, e), Value::List(xs)) => {
			if xs.is_empty() || (bulk_primitive(e) && matches!(k, SeqKind::Vec | SeqKind::Deque | SeqKind::Heap)) {
				0
			} else {
				1 + xs.iter().map(|x| depth_min(e, x)).max().unwrap_or(0)
			}
		},
		(Shape::Seq(..), Value::Rep(n)) => (*n > 0) as u32,
		(Shape::Map(k, val), Value::Map(xs)) =>
			if xs.is_empty() {
				0
			} else {
				1 + xs.iter().map(|(a, c)| depth_min(k, a).max(depth_min(val, c))).max().unwrap_or(0)
			},
		(Shape::Wrap(WrapKind::Cow, e), x) => depth_min(e, x),
		(Shape::Wrap(_, e), x) => 1 + depth_min(e, x),
		(Shape::Str, _) | (Shape::Bytes, _) | (Shape::Bits { .. }, _) => 0,
		(Shape::Option(e), Value::Some_(x)) => depth_min(e, x),
		(Shape::Result(t, _), Value::Ok_(x)) => depth_min(t, x),
		(Shape::Result(_, e), Value::Err_(x)) => depth_min(e, x),
		(Shape::Array(_, e), Value::List(xs)) => xs.iter().map(|x| depth_min(e, x)).max().unwrap_or(0),
		(Shape::Tuple(es), Value::List(xs)) => es.iter().zip(xs).map(|(e, x)| depth_min(e, x)).max().unwrap_or(0),
		(Shape::Range(e), Value::List(xs)) | (Shape::RangeIncl(e), Value::List(xs)) =>
			xs.iter().map(|x| depth_min(e, x)).max().unwrap_or(0),
		(Shape::Struct(fs), Value::List(xs)) =>
			fs.iter().zip(xs).filter(|(f, _)| !f.skip).map(|(f, x)| depth_min(&f.shape, x)).max().unwrap_or(0),
		(Shape::Enum(vs), Value::Variant(i, xs)) => vs[*i]
			.fields
			.iter()
			.zip(xs)
			.filter(|(f, _)| !f.skip)
			.map(|(f, x)| depth_min(&f.shape, x))
			.max()
			.unwrap_or(0),
		_ => 0,
	}
}

/// True only if it is certain that the value holds no heap data at all (conservative: `false`
/// whenever the in-memory size of something behind a pointer is not known from the shape).
pub fn holds_no_heap(shape: &Shape, v: &Value) -> bool {
	match (shape, v) {
		(Shape::Seq(..), Value::List(xs)) => xs.is_empty(),
		(Shape::Seq(..), Value::Rep(n)) => *n == 0,
		(Shape::Map(..), Value::Map(xs)) => xs.is_empty(),
		(Shape::Str, Value::Str(s)) => s.is_empty(),
		(Shape::Bytes, Value::Bytes(b)) => b.is_empty(),
		(Shape::Bits { .. }, Value::Bits(b)) => b.is_empty(),
		(Shape::Wrap(WrapKind::Cow, e), x) => holds_no_heap(e, x),
		(Shape::Wrap(_, e), _) => matches!(**e, Shape::Unit | Shape::Phantom | Shape::CompactUnit | Shape::Array(0, _)),
		(Shape::Option(_), Value::None_) => true,
		(Shape::Option(e), Value::Some_(x)) => holds_no_heap(e, x),
		(Shape::Result(t, _), Value::Ok_(x)) => holds_no_heap(t, x),
		(Shape::Result(_, e), Value::Err_(x)) => holds_no_heap(e, x),
		(Shape::Array(_, e), Value::List(xs)) => xs.iter().all(|x| holds_no_heap(e, x)),
		(Shape::Array(..), Value::Rep(_)) => true,
		(Shape::Tuple(es), Value::List(xs)) => es.iter().zip(xs).all(|(e, x)| holds_no_heap(e, x)),
		(Shape::Range(e), Value::List(xs)) | (Shape::RangeIncl(e), Value::List(xs)) => xs.iter().all(|x| holds_no_heap(e, x)),
		(Shape::Struct(fs), Value::List(xs)) => fs.iter().zip(xs).all(|(f, x)| f.skip || holds_no_heap(&f.shape, x)),
		(Shape::Enum(vs), Value::Variant(i, xs)) => vs[*i].fields.iter().zip(xs).all(|(f, x)| f.skip || holds_no_heap(&f.shape, x)),
		(s, _) => !may_hold_heap(s),
	}
}

/// True if values of the shape can hold heap data at all.
pub fn may_hold_heap(shape: &Shape) -> bool {
	match shape {
		Shape::Seq(..) | Shape::Map(..) | Shape::Str | Shape::Bytes | Shape::Bits { .. } => true,
		Shape::Wrap(WrapKind::Cow, e) => may_hold_heap(e),
		Shape::Wrap(..) => true,
		Shape::Option(e) | Shape::Array(_, e) | Shape::Range(e) | Shape::RangeIncl(e) => may_hold_heap(e),
		Shape::Result(a, c) => may_hold_heap(a) || may_hold_heap(c),
		Shape::Tuple(es) => es.iter().any(may_hold_heap),
		Shape::Struct(fs) => fs.iter().any(|f| !f.skip && may_hold_heap(&f.shape)),
		Shape::Enum(vs) => vs.iter().any(|v| v.fields.iter().any(|f| !f.skip && may_hold_heap(&f.shape))),
		_ => false,
	}
}

/// Upper bound of the encoded length of any value of the shape, if one exists.
pub fn max_len(shape: &Shape) -> Option<usize> {
	Some(match shape {
		Shape::UInt(b) | Shape::SInt(b) | Shape::NonZeroU(b) | Shape::NonZeroI(b) => *b as usize / 8,
		Shape::F32 => 4,
		Shape::F64 => 8,
		Shape::Bool | Shape::OptionBool => 1,
		Shape::Unit | Shape::CompactUnit | Shape::Phantom => 0,
		Shape::Compact(b) => crate::compact_len(domain::mask(*b)),
		Shape::CompactMax(_, max) => crate::compact_len(*max),
		Shape::Option(e) => 1 + max_len(e)?,
		Shape::Result(a, c) => 1 + max_len(a)?.max(max_len(c)?),
		Shape::Seq(..) | Shape::Map(..) | Shape::Str | Shape::Bytes | Shape::Bits { .. } => return None,
		Shape::Array(n, e) => n * max_len(e)?,
		Shape::Tuple(es) => {
			let mut t = 0;
			for e in es {
				t += max_len(e)?;
			}
			t
		},
		Shape::Wrap(_, e) => max_len(e)?,
		Shape::Duration => 12,
		Shape::Range(e) | Shape::RangeIncl(e) => 2 * max_len(e)?,
		Shape::Struct(fs) => {
			let mut t = 0;
			for f in fs.iter().filter(|f| !f.skip) {
				t += max_len(&f.shape)?;
			}
			t
		},
		Shape::Enum(vs) => {
			let mut m = 0;
			for v in vs.iter().filter(|v| v.index.is_some()) {
				let mut t = 1;
				for f in v.fields.iter().filter(|f| !f.skip) {
					t += max_len(&f.shape)?;
				}
				m = m.max(t);
			}
			m
		},
	})
}

/// A value whose encoding has the maximal length (for shapes with bounded length).
pub fn max_witness(shape: &Shape) -> Option<Value> {
	max_len(shape)?;
	Some(match shape {
		Shape::UInt(b) | Shape::NonZeroU(b) | Shape::Compact(b) => Value::U(domain::mask(*b)),
		Shape::CompactMax(_, max) => Value::U(*max),
		Shape::SInt(_) | Shape::NonZeroI(_) => Value::I(-1),
		Shape::F32 => Value::F32(u32::MAX),
		Shape::F64 => Value::F64(u64::MAX),
		Shape::Bool => Value::Bool(true),
		Shape::OptionBool => Value::Some_(Box::new(Value::Bool(true))),
		Shape::Unit | Shape::CompactUnit | Shape::Phantom => Value::Unit,
		Shape::Option(e) => Value::Some_(Box::new(max_witness(e)?)),
		Shape::Result(a, c) =>
			if max_len(a)? >= max_len(c)? {
				Value::Ok_(Box::new(max_witness(a)?))
			} else {
				Value::Err_(Box::new(max_witness(c)?))
			},
		Shape::Array(n, e) =>
			if e.zero_width() {
				Value::Rep(*n as u64)
			} else {
				Value::List((0..*n).map(|_| max_witness(e)).collect::<Option<Vec<_>>>()?)
			},
		Shape::Tuple(es) => Value::List(es.iter().map(max_witness).collect::<Option<Vec<_>>>()?),
		Shape::Wrap(_, e) => max_witness(e)?,
		Shape::Duration => Value::List(vec![Value::U(u64::MAX as u128), Value::U(999_999_999)]),
		Shape::Range(e) | Shape::RangeIncl(e) => Value::List(vec![max_witness(e)?, max_witness(e)?]),
		Shape::Struct(fs) => Value::List(
			fs.iter()
				.map(|f| if f.skip { Some(f.shape.default_value()) } else { max_witness(&f.shape) })
				.collect::<Option<Vec<_>>>()?,
		),
		Shape::Enum(vs) => {
			let mut best: Option<(usize, usize)> = None;
			for (i, v) in vs.iter().enumerate().filter(|(_, v)| v.index.is_some()) {
				let mut t = 1;
				for f in v.fields.iter().filter(|f| !f.skip) {
					t += max_len(&f.shape)?;
				}
				if best.map_or(true, |(_, bt)| t > bt) {
					best = Some((i, t));
				}
			}
			let (i, _) = best?;
			Value::Variant(
				i,
				vs[i]
					.fields
					.iter()
					.map(|f| if f.skip { Some(f.shape.default_value()) } else { max_witness(&f.shape) })
					.collect::<Option<Vec<_>>>()?,
			)
		},
		_ => return None,
	})
}

/// Length of every encoding if it is the same for all values.
pub fn const_len(shape: &Shape) -> Option<usize> {
	Some(match shape {
		Shape::UInt(b) | Shape::SInt(b) | Shape::NonZeroU(b) | Shape::NonZeroI(b) => *b as usize / 8,
		Shape::F32 => 4,
		Shape::F64 => 8,
		Shape::Bool | Shape::OptionBool => 1,
		Shape::Unit | Shape::CompactUnit | Shape::Phantom => 0,
		Shape::Array(n, e) => n * const_len(e)?,
		Shape::Tuple(es) => {
			let mut t = 0;
			for e in es {
				t += const_len(e)?;
			}
			t
		},
		Shape::Wrap(_, e) => const_len(e)?,
		Shape::Duration => 12,
		Shape::Range(e) | Shape::RangeIncl(e) => 2 * const_len(e)?,
		Shape::Struct(fs) => {
			let mut t = 0;
			for f in fs.iter().filter(|f| !f.skip) {
				t += const_len(&f.shape)?;
			}
			t
		},
		_ => return None,
	})
}

/// Where a variant's index comes from in a definition.
#[derive(Clone, Copy, Debug, PartialEq, Eq)]
pub enum IndexSrc {
	Implicit,
	Skip,
	Attr(u32),
	Discr(u32),
	/// both an `index` attribute and an explicit discriminant: the attribute wins
	Both(u32, u32),
}

/// The variant-index rule: attribute > discriminant > position among non-skipped variants.
/// Returns the index per variant (`None` for skipped ones).
pub fn variant_indices(srcs: &[IndexSrc]) -> Vec<Option<u32>> {
	let mut pos = 0u32;
	srcs.iter()
		.map(|s| match s {
			IndexSrc::Skip => None,
			other => {
				let i = match other {
					IndexSrc::Implicit => pos,
					IndexSrc::Attr(a) => *a,
					IndexSrc::Discr(d) => *d,
					IndexSrc::Both(a, _) => *a,
					IndexSrc::Skip => unreachable!(),
				};
				pos += 1;
				Some(i)
			},
		})
		.collect()
}

/// The compile-accept predicate for enum definitions (C17): reject iff an index among
/// non-skipped variants exceeds 255 or two collide, or there are more than 256 of them.
pub fn enum_accepts(srcs: &[IndexSrc]) -> bool {
	let idx: Vec<u32> = variant_indices(srcs).into_iter().flatten().collect();
	if idx.len() > 256 {
		return false;
	}
	if idx.iter().any(|i| *i > 255) {
		return false;
	}
	let mut s = idx.clone();
	s.sort();
	s.dedup();
	s.len() == idx.len()
}

/// Saturating byte counter (C19).
pub fn counter_add(c: u64, delivered: u64) -> u64 {
	c.saturating_add(delivered)
}

/// Which sequence kinds keep insertion order on the wire.
pub fn ordered(kind: SeqKind) -> bool {
	!matches!(kind, SeqKind::Heap | SeqKind::Set)
}

#!/usr/bin/env python3
"""Applies each of the hand-written mutations planned in DESIGN.md to /repo, confirms that the repository's
suite still passes, runs the named quick checks, and reverts. Results -> mutations/results.json."""
import subprocess, json, sys, os, re
M = [
 ("M03 Compact<u64> accepts non-minimal 4-byte mode", "src/compact.rs",
  "\t\t\t\tif x > 0b0011_1111_1111_1111 && x <= u32::MAX >> 2 {\n\t\t\t\t\tu64::from(x)",
  "\t\t\t\tif x <= u32::MAX >> 2 {\n\t\t\t\t\tu64::from(x)", ["C03","C04"]),
 ("M05 bit-length cap removed", "src/bit_vec.rs",
  "\t\t\tif bits as usize > ARCH32BIT_BITSLICE_MAX_BITS {", "\t\t\tif false && bits as usize > ARCH32BIT_BITSLICE_MAX_BITS {", ["C03"]),
 ("M07 Duration::encode_to writes nanos first", "src/codec.rs",
  "\tfn encode(&self) -> Vec<u8> {\n\t\tlet secs = self.as_secs();",
  "\tfn encode_to<W: Output + ?Sized>(&self, dest: &mut W) {\n\t\tself.subsec_nanos().encode_to(dest);\n\t\tself.as_secs().encode_to(dest);\n\t}\n\n\tfn encode(&self) -> Vec<u8> {\n\t\tlet secs = self.as_secs();", ["C07","C01"]),
 ("M08 CountedInput does not forward descend_ref", "src/counted_input.rs",
  "\tfn descend_ref(&mut self) -> Result<(), crate::Error> {\n\t\tself.input.descend_ref()\n\t}\n", "", ["C08","C11"]),
 ("M09 reserve_exact(num_undecoded_items)", "src/codec.rs",
  "\t\tdecoded_vec.reserve_exact(chunk_len);", "\t\tdecoded_vec.reserve_exact(num_undecoded_items);", ["C09"]),
 ("M10 array drop guard not disarmed (double drop)", "src/codec.rs",
  "\t\tmem::forget(state);\n", "", ["C10"]),
 ("M10b array drop guard drops one element too few", "src/codec.rs",
  "\t\t\t\tfor item in &mut self.slice[..self.count] {", "\t\t\t\tfor item in &mut self.slice[..self.count.saturating_sub(1)] {", ["C10"]),
 ("M11 BTreeMap::decode forgets ascend_ref", "src/codec.rs",
  "\t\t\tinput.on_before_alloc_mem(super::btree_utils::mem_size_of_btree::<(K, V)>(len))?;\n\t\t\tlet result = Result::from_iter((0..len).map(|_| Decode::decode(input)));\n\t\t\tinput.ascend_ref();",
  "\t\t\tinput.on_before_alloc_mem(super::btree_utils::mem_size_of_btree::<(K, V)>(len))?;\n\t\t\tlet result = Result::from_iter((0..len).map(|_| Decode::decode(input)));", ["C11"]),
 ("M12 MemTrackingInput wraps instead of saturating", "src/mem_tracking.rs",
  "self.used_mem.saturating_add(size)", "self.used_mem.wrapping_add(size)", ["C12"]),
 ("M12b LinkedList announces memory only for short lists", "src/codec.rs",
  "\t\t\tinput.on_before_alloc_mem((len as usize).saturating_mul(mem::size_of::<(", "\t\t\tinput.on_before_alloc_mem((len as usize % 65536).saturating_mul(mem::size_of::<(", ["C12"]),
 ("M13 Result max_encoded_len uses min", "src/max_encoded_len.rs",
  "T::max_encoded_len().max(E::max_encoded_len()).saturating_add(1)", "T::max_encoded_len().min(E::max_encoded_len()).saturating_add(1)", ["C13"]),
 ("M14 decode_all tolerates one trailing zero byte", "src/decode_all.rs",
  "\t\tif input.is_empty() {", "\t\tif input.is_empty() || *input == [0u8] {", ["C14"]),
 ("M15 in-place prefix rewrite uses the new prefix length", "src/encode_append.rs",
  "vec[..old_item_count_encoded_bytesize].copy_from_slice(length_encoded)", "vec[..new_item_count_encoded_bytesize].copy_from_slice(length_encoded)", ["C15"]),
 ("M15b reallocation path keeps the old prefix bytes", "src/encode_append.rs",
  "new_vec.extend_from_slice(&vec[old_item_count_encoded_bytesize..]);", "new_vec.extend_from_slice(&vec[new_item_count_encoded_bytesize.min(vec.len())..]);", ["C15"]),
 ("M16 VecDeque emits a count per ring-buffer slice", "src/codec.rs",
  "\t\tlet slices = self.as_slices();\n\t\tencode_slice_no_len(slices.0, dest);\n\t\tencode_slice_no_len(slices.1, dest);",
  "\t\tlet slices = self.as_slices();\n\t\tencode_slice_no_len(slices.0, dest);\n\t\tif !slices.1.is_empty() {\n\t\t\tslices.1.encode_to(dest);\n\t\t}", ["C16","C06","C01"]),
 ("M17 index 256 tolerated", "derive/src/utils.rs",
  "\t\t\t\t\tif array[i].0 > 255 {", "\t\t\t\t\tif array[i].0 > 256 {", ["C17"]),
 ("M18 array skip stops one element early", "src/codec.rs",
  "\t\t\tfor _ in 0..N {\n\t\t\t\tT::skip(input)?;", "\t\t\tfor _ in 0..N.saturating_sub(1) {\n\t\t\t\tT::skip(input)?;", ["C18","C07"]),
 ("M19 counter incremented before the inner read", "src/counted_input.rs",
  "\t\tself.input.read(into).inspect(|_r| {\n\t\t\tself.counter = self.counter.saturating_add(into.len().try_into().unwrap_or(u64::MAX));\n\t\t})",
  "\t\tself.counter = self.counter.saturating_add(into.len().try_into().unwrap_or(u64::MAX));\n\t\tself.input.read(into)", ["C19"]),
 ("M19b counter wraps", "src/counted_input.rs",
  "self.counter = self.counter.saturating_add(1);", "self.counter = self.counter.wrapping_add(1);", ["C19"]),
 ("M20 no_std Output for Vec<u8> writes reversed", "src/codec.rs",
  "\t\tself.extend_from_slice(bytes)", "\t\tself.extend(bytes.iter().rev())", ["C20"]),
 ("M01 Duration fields swapped on both sides", "src/codec.rs", None, None, ["C01"]),
 ("M02 String decode skips the UTF-8 check for short strings", "src/codec.rs",
  "\t\tSelf::from_utf8(Vec::decode(input)?).map_err(|_| \"Invalid utf8 sequence\".into())",
  "\t\tlet v = Vec::decode(input)?;\n\t\tif v.len() < 2 {\n\t\t\treturn Ok(unsafe { Self::from_utf8_unchecked(v) });\n\t\t}\n\t\tSelf::from_utf8(v).map_err(|_| \"Invalid utf8 sequence\".into())", ["C03"]),
 ("M06 OptionBool decode accepts 3 as None", "src/codec.rs",
  "\t\t\t0 => Ok(OptionBool(None)),\n\t\t\t1 => Ok(OptionBool(Some(true))),", "\t\t\t0 | 3 => Ok(OptionBool(None)),\n\t\t\t1 => Ok(OptionBool(Some(true))),", ["C03"]),
]
def sh(cmd, **kw): return subprocess.run(cmd, shell=True, capture_output=True, text=True, errors="replace", **kw)
results=[]
only=sys.argv[1:] 
for name,file,old,new,checks in M:
    if only and not any(o in name for o in only): continue
    assert sh("git -C /repo diff --quiet").returncode==0, "/repo dirty"
    if name.startswith("M01"):
        p="/repo/src/codec.rs"; s=open(p).read()
        s=s.replace("(secs, nanos).encode()","(nanos, secs).encode()").replace("let (secs, nanos) = <(u64, u32)>::decode(input)","let (nanos, secs) = <(u32, u64)>::decode(input)")
        open(p,"w").write(s)
    else:
        p="/repo/"+file; s=open(p).read()
        if old not in s: print("PATTERN NOT FOUND", name); continue
        open(p,"w").write(s.replace(old,new,1))
    r={"mutation":name,"file":file,"checks":{}}
    t=sh("cd /repo && cargo nextest run --workspace --no-fail-fast --offline 2>&1 | grep -E 'Summary|^\\s+FAIL' | sort -u")
    fails=[l for l in t.stdout.splitlines() if "FAIL" in l and "derive_no_bound_ui" not in l and "scale_codec_ui_tests" not in l]
    r["suite"]=(re.search(r"Summary.*", t.stdout) or [""])[0] if "Summary" in t.stdout else t.stdout[-200:]
    r["suite_unexpected_failures"]=fails
    for c in checks:
        o=sh(f"/verif/check {c} --tier quick")
        first=next((l for l in o.stderr.splitlines() if "violation key" in l), "")
        r["checks"][c]={"exit":o.returncode,"first":first[:240]}
    sh("git -C /repo checkout -- .")
    results.append(r)
    print(name, "| suite unexpected fails:", len(fails), "|", {c:v["exit"] for c,v in r["checks"].items()}, flush=True)
os.makedirs("/verif/mutations",exist_ok=True)
prev=[]
if os.path.exists("/verif/mutations/results.json") and only: prev=[x for x in json.load(open("/verif/mutations/results.json")) if x["mutation"] not in [r["mutation"] for r in results]]
json.dump(prev+results,open("/verif/mutations/results.json","w"),indent=1)

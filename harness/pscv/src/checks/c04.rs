//! C04 — compact integers: canonical, minimal, width-compatible bijection.

use crate::common::*;
use parity_scale_codec::{Compact, CompactLen, Decode, Encode};
use refmodel::{dec_compact, enc_compact, Cur};
use serde_json::{json, Value as Json};

/// Reference decoder, written for speed (no allocation) and cross-checked against
/// `refmodel::dec_compact` on every string of the cross-check set.
/// Returns `Some((value, consumed))` iff the string begins with the canonical form of a value
/// that fits `bits`.
#[inline]
pub fn fast_ref(bits: u32, s: &[u8]) -> Option<(u128, usize)> {
	let first = *s.first()?;
	let (x, n): (u128, usize) = match first & 3 {
		0 => ((first >> 2) as u128, 1),
		1 => {
			if s.len() < 2 {
				return None;
			}
			let x = (u16::from_le_bytes([first, s[1]]) >> 2) as u128;
			if x < 64 {
				return None;
			}
			(x, 2)
		},
		2 => {
			if s.len() < 4 {
				return None;
			}
			let x = (u32::from_le_bytes([first, s[1], s[2], s[3]]) >> 2) as u128;
			if x < 1 << 14 {
				return None;
			}
			(x, 4)
		},
		_ => {
			let n = (first >> 2) as usize + 4;
			if n > 16 || s.len() < n + 1 {
				return None;
			}
			if s[n] == 0 {
				return None;
			}
			let mut buf = [0u8; 16];
			buf[..n].copy_from_slice(&s[1..n + 1]);
			let x = u128::from_le_bytes(buf);
			if x < 1 << 30 {
				return None;
			}
			(x, n + 1)
		},
	};
	if bits < 128 && x >> bits != 0 {
		return None;
	}
	Some((x, n))
}

/// Allocation-free output for the exhaustive sweeps.
pub struct Buf {
	pub data: [u8; 24],
	pub len: usize,
}
impl parity_scale_codec::Output for Buf {
	#[inline]
	fn write(&mut self, bytes: &[u8]) {
		self.data[self.len..self.len + bytes.len()].copy_from_slice(bytes);
		self.len += bytes.len();
	}
}

pub trait CW: Copy + Sync + 'static {
	const BITS: u32;
	/// allocation-free: encode_to, using_encoded and compact_len agree with `want`
	fn enc_fast(x: u128, want: &[u8]) -> bool;
	fn dec(s: &[u8]) -> Result<(u128, usize), String>;
	/// (encode, encode_to, using_encoded, compact_len, size_hint)
	fn enc(x: u128) -> (Vec<u8>, Vec<u8>, Vec<u8>, usize, usize);
}
macro_rules! impl_cw {
	($($t:ty),*) => {$(
		impl CW for $t {
			const BITS: u32 = <$t>::BITS;
			#[inline]
			fn dec(s: &[u8]) -> Result<(u128, usize), String> {
				let mut i = s;
				match <Compact<$t>>::decode(&mut i) {
					Ok(c) => Ok((c.0 as u128, s.len() - i.len())),
					Err(e) => Err(e.to_string()),
				}
			}
			#[inline]
			fn enc_fast(x: u128, want: &[u8]) -> bool {
				let c = Compact(x as $t);
				let mut b = Buf { data: [0; 24], len: 0 };
				c.encode_to(&mut b);
				&b.data[..b.len] == want
					&& c.using_encoded(|e| e == want)
					&& <Compact<$t> as CompactLen<$t>>::compact_len(&(x as $t)) == want.len()
			}
			fn enc(x: u128) -> (Vec<u8>, Vec<u8>, Vec<u8>, usize, usize) {
				let c = Compact(x as $t);
				let mut to = Vec::new();
				c.encode_to(&mut to);
				(c.encode(), to, c.using_encoded(|b| b.to_vec()), <Compact<$t> as CompactLen<$t>>::compact_len(&(x as $t)), c.size_hint())
			}
		}
	)*}
}
impl_cw!(u8, u16, u32, u64, u128);

fn fits(bits: u32, x: u128) -> bool {
	bits == 128 || x >> bits == 0
}

/// Everything the property says about one value.
pub fn check_value(x: u128) -> Result<(), String> {
	match guarded(|| check_value_inner(x)) {
		Ok(r) => r,
		Err(p) => Err(format!("compact encode/decode of {} panicked: {}", x, p)),
	}
}

fn check_value_inner(x: u128) -> Result<(), String> {
	let mut want = Vec::with_capacity(17);
	enc_compact(x, &mut want);
	macro_rules! w {
		($t:ty) => {
			if fits(<$t>::BITS, x) {
				let (e, to, ue, cl, _sh) = <$t as CW>::enc(x);
				if e != want {
					return Err(format!("Compact<{}>({}) encodes to {} expected {}", stringify!($t), x, hex(&e), hex(&want)));
				}
				if to != want || ue != want {
					return Err(format!("Compact<{}>({}): encode_to/using_encoded disagree with encode", stringify!($t), x));
				}
				if cl != want.len() {
					return Err(format!("Compact<{}>::compact_len({}) = {} but the encoding has {} bytes", stringify!($t), x, cl, want.len()));
				}
			}
			match (<$t as CW>::dec(&want), fits(<$t>::BITS, x)) {
				(Ok((v, n)), true) =>
					if v != x || n != want.len() {
						return Err(format!("Compact<{}> decodes {} to {} using {} bytes", stringify!($t), hex(&want), v, n));
					},
				(Err(_), false) => {},
				(Ok((v, _)), false) =>
					return Err(format!("Compact<{}> accepted {} (value {} does not fit) as {}", stringify!($t), hex(&want), x, v)),
				(Err(e), true) => return Err(format!("Compact<{}> rejected canonical {}: {}", stringify!($t), hex(&want), e)),
			}
		};
	}
	w!(u8);
	w!(u16);
	w!(u32);
	w!(u64);
	w!(u128);
	Ok(())
}

/// Decoder of width W on one byte string vs the reference.
#[inline]
pub fn check_string<W: CW>(s: &[u8]) -> Result<bool, String> {
	match guarded(|| check_string_raw::<W>(s)) {
		Ok(r) => r,
		Err(p) => Err(format!("Compact<u{}> decode of {} panicked: {}", W::BITS, hex(s), p)),
	}
}

thread_local! {
	/// whether the exhaustive loops guard every single call (slow) or rely on the block guard
	static SLOW: std::cell::Cell<bool> = const { std::cell::Cell::new(false) };
}

/// Run an exhaustive block unguarded inside one panic guard; if anything in it panics, discard its
/// counts and run it again with a guard around every single call so that the case is attributed.
/// A panic of the subject is a violation, never a crash of the check.
fn block(acc: &mut Acc, f: impl Fn(&mut Acc)) {
	let mut local = Acc::default();
	if guarded(|| f(&mut local)).is_ok() {
		acc.merge(local);
		return;
	}
	SLOW.with(|s| s.set(true));
	let mut local = Acc::default();
	f(&mut local);
	SLOW.with(|s| s.set(false));
	acc.merge(local);
}

#[inline]
pub fn check_string_raw<W: CW>(s: &[u8]) -> Result<bool, String> {
	let got = W::dec(s);
	let want = fast_ref(W::BITS, s);
	match (got, want) {
		(Ok((v, n)), Some((x, m))) =>
			if v == x && n == m {
				Ok(true)
			} else {
				Err(format!("Compact<u{}> decodes {} to ({}, {}), reference ({}, {})", W::BITS, hex(s), v, n, x, m))
			},
		(Err(_), None) => Ok(false),
		(Ok((v, n)), None) => Err(format!("Compact<u{}> accepted non-canonical/over-wide {} as ({}, {})", W::BITS, hex(s), v, n)),
		(Err(e), Some((x, _))) => Err(format!("Compact<u{}> rejected canonical {} (= {}): {}", W::BITS, hex(s), x, e)),
	}
}

fn viol(acc: &mut Acc, sub: &str, key: &str, detail: String, case: Json) {
	acc.violate(Violation { property: "C04".into(), sub: sub.into(), key: format!("C04|{}", key), detail, case });
}

/// Allocation-free variant of `check_value` for the 2^32 sweep (does not call `encode()`, which
/// allocates; `encode()` is covered by `check_value` on all 16-bit values, windows and lanes).
#[inline]
pub fn check_value_fast(x: u128, all_widths: bool) -> bool {
	if SLOW.with(|s| s.get()) {
		guarded(|| check_value_fast_inner(x, all_widths)).unwrap_or(false)
	} else {
		check_value_fast_inner(x, all_widths)
	}
}

#[inline]
fn check_value_fast_inner(x: u128, all_widths: bool) -> bool {
	let mut w = Buf { data: [0; 24], len: 0 };
	// reference encoding without allocation
	if x < 1 << 6 {
		w.data[0] = (x as u8) << 2;
		w.len = 1;
	} else if x < 1 << 14 {
		w.data[..2].copy_from_slice(&(((x as u16) << 2) | 1).to_le_bytes());
		w.len = 2;
	} else if x < 1 << 30 {
		w.data[..4].copy_from_slice(&(((x as u32) << 2) | 2).to_le_bytes());
		w.len = 4;
	} else {
		let n = (128 - x.leading_zeros() as usize + 7) / 8;
		w.data[0] = (((n - 4) as u8) << 2) | 3;
		w.data[1..n + 1].copy_from_slice(&x.to_le_bytes()[..n]);
		w.len = n + 1;
	}
	let want = &w.data[..w.len];
	macro_rules! one {
		($t:ty) => {{
			let f = fits(<$t>::BITS, x);
			if f && !<$t as CW>::enc_fast(x, want) {
				return false;
			}
			let mut i = want;
			match <Compact<$t>>::decode(&mut i) {
				Ok(c) =>
					if !f || c.0 as u128 != x || !i.is_empty() {
						return false;
					},
				Err(_) =>
					if f {
						return false;
					},
			}
		}};
	}
	one!(u32);
	if all_widths {
		one!(u8);
		one!(u16);
		one!(u64);
		one!(u128);
	}
	true
}

fn values_range_fast(lo: u128, hi: u128, all_widths: bool, acc: &mut Acc) {
	for x in lo..hi {
		if !check_value_fast(x, all_widths) {
			// the slow path produces the explanation
			let d = check_value(x).err().unwrap_or_else(|| "allocation-free entry points disagree with the reference encoding".to_string());
			viol(acc, "C04.value", "value", d, json!({"sub": "C04.value", "value": x.to_string()}));
		}
	}
	let n = (hi - lo) as u64;
	acc.evaluations += n;
	acc.states += n;
	acc.traces += n;
	acc.nontrivial += n;
	acc.transitions += n * if all_widths { 8 } else { 4 };
	acc.add(if all_widths { "values_under_all_five_widths" } else { "values_under_native_width_only" }, n);
}

fn values_range(lo: u128, hi: u128, acc: &mut Acc) {
	for x in lo..hi {
		if let Err(d) = check_value(x) {
			viol(acc, "C04.value", "value", d, json!({"sub": "C04.value", "value": x.to_string()}));
		}
	}
	let n = (hi - lo) as u64;
	acc.evaluations += n;
	acc.states += n;
	acc.traces += n;
	acc.nontrivial += n;
	acc.transitions += n * 10;
}

fn strings<W: CW>(acc: &mut Acc, s: &[u8], accepted: &mut u64) {
	let r = if SLOW.with(|x| x.get()) { check_string::<W>(s) } else { check_string_raw::<W>(s) };
	match r {
		Ok(a) => {
			if a {
				*accepted += 1;
			}
		},
		Err(d) => viol(acc, "C04.string", &format!("u{}|string", W::BITS), d, json!({"sub": "C04.string", "width": W::BITS, "bytes": hex_full(s)})),
	}
}

/// All strings the decoder of width W <= 32 can distinguish, for the first bytes in `firsts`.
fn distinguishable<W: CW>(first: u8, full_tag03: bool, acc: &mut Acc) {
	let mut n = 0u64;
	let mut accepted = 0u64;
	let mut buf = [0u8; 6];
	buf[0] = first;
	// proper prefixes / the one-byte string
	strings::<W>(acc, &buf[..1], &mut accepted);
	n += 1;
	match first & 3 {
		0 => {},
		1 => {
			for b in 0..=255u8 {
				buf[1] = b;
				strings::<W>(acc, &buf[..2], &mut accepted);
			}
			n += 256;
		},
		2 => {
			// prefixes of length 2 and 3 (all), then all 2^24 completions
			for b in 0..=255u8 {
				buf[1] = b;
				strings::<W>(acc, &buf[..2], &mut accepted);
				for c in 0..=255u8 {
					buf[2] = c;
					strings::<W>(acc, &buf[..3], &mut accepted);
					for d in 0..=255u8 {
						buf[3] = d;
						strings::<W>(acc, &buf[..4], &mut accepted);
					}
				}
			}
			n += 256 + 65536 + (1 << 24);
		},
		_ => {
			if first == 3 && full_tag03 {
				// handled by `tag03` (split over work items)
			} else {
				// other length tags: payload of every length 0..=5 with boundary bytes
				for len in 1..=5usize {
					for top in [0u8, 1, 0x3f, 0x40, 0x7f, 0x80, 0xff] {
						for fill in [0u8, 0xff] {
							for k in 1..=len {
								buf[k] = fill;
							}
							buf[len] = top;
							strings::<W>(acc, &buf[..=len], &mut accepted);
							n += 1;
						}
					}
				}
			}
		},
	}
	acc.evaluations += n;
	acc.states += n;
	acc.traces += n;
	acc.nontrivial += n;
	acc.transitions += n;
	acc.add("accepted", accepted);
}

/// tag 03 followed by every 4-byte payload whose top byte is `top` (2^24 strings), plus prefixes.
fn tag03<W: CW>(top: u8, acc: &mut Acc) {
	let mut accepted = 0u64;
	let mut buf = [3u8, 0, 0, 0, top, 0];
	for a in 0..=255u8 {
		buf[1] = a;
		for b in 0..=255u8 {
			buf[2] = b;
			for c in 0..=255u8 {
				buf[3] = c;
				strings::<W>(acc, &buf[..5], &mut accepted);
			}
		}
	}
	// short payloads (exhaustion) for this top byte value used as a payload byte
	strings::<W>(acc, &[3, top], &mut accepted);
	strings::<W>(acc, &[3, top, top], &mut accepted);
	strings::<W>(acc, &[3, top, top, top], &mut accepted);
	let n = (1u64 << 24) + 3;
	acc.evaluations += n;
	acc.states += n;
	acc.traces += n;
	acc.nontrivial += n;
	acc.transitions += n;
	acc.add("accepted", accepted);
}

/// 64/128-bit decoders: every (tag byte x supplied payload length x top byte x second-top byte)
/// with the remaining payload bytes 00 / ff / lane-coded.
fn wide_strings<W: CW>(tag: u8, acc: &mut Acc) {
	let mut accepted = 0u64;
	let mut n = 0u64;
	let mut buf = [0u8; 72];
	buf[0] = (tag << 2) | 3;
	let need = ((buf[0] >> 2) as usize) + 4;
	for supplied in [need.saturating_sub(1), need, need + 1] {
		if supplied == 0 || supplied > 70 {
			continue;
		}
		for fill in 0..3u8 {
			for k in 1..=supplied {
				buf[k] = match fill {
					0 => 0,
					1 => 0xff,
					_ => k as u8,
				};
			}
			for top in 0..=255u8 {
				buf[supplied] = top;
				for second in 0..=255u8 {
					if supplied >= 2 {
						buf[supplied - 1] = second;
					} else if second > 0 {
						break;
					}
					strings::<W>(acc, &buf[..=supplied], &mut accepted);
					n += 1;
				}
			}
		}
	}
	acc.evaluations += n;
	acc.states += n;
	acc.traces += n;
	acc.nontrivial += n;
	acc.transitions += n;
	acc.add("accepted", accepted);
}

fn lane_values(bits: u32, a: u32, b: u32, rest_ff: bool, acc: &mut Acc) {
	let lanes = bits / 8;
	let mut base: u128 = 0;
	if rest_ff {
		for l in 0..lanes {
			if l != a && l != b {
				base |= 0xffu128 << (8 * l);
			}
		}
	}
	for x in 0..=255u128 {
		for y in 0..=255u128 {
			let v = base | (x << (8 * a)) | (y << (8 * b));
			if let Err(d) = check_value(v) {
				viol(acc, "C04.value", "value", d, json!({"sub": "C04.value", "value": v.to_string()}));
			}
		}
	}
	acc.evaluations += 65536;
	acc.states += 65536;
	acc.traces += 65536;
	acc.nontrivial += 65536;
	acc.transitions += 65536 * 10;
}

pub fn run(tier: Tier) -> Report {
	let mut rep = Report::new("C04", tier);

	// cross-check the fast reference against the reference model on every string <= 3 bytes and on
	// boundary strings, so that there is one source of truth
	let mut acc = Acc::default();
	let mut mism = 0u64;
	let mut n = 0u64;
	for bits in [8u32, 16, 32, 64, 128] {
		let mut one = |s: &[u8]| {
			let mut c = Cur::new(s);
			let m = dec_compact(bits, &mut c).ok().map(|x| (x, c.pos));
			if m != fast_ref(bits, s) {
				mism += 1;
			}
			n += 1;
		};
		for a in 0..=255u8 {
			one(&[a]);
			for b in 0..=255u8 {
				one(&[a, b]);
				for c in [0u8, 1, 0x3f, 0x40, 0xff] {
					one(&[a, b, c]);
					for d in [0u8, 1, 0x40, 0xff] {
						one(&[a, b, c, d]);
						one(&[a, b, c, d, d]);
						one(&[a, b, c, 0, 0, d, 0, 0, d]);
						one(&[a, b, c, 0, 0, d, 0, 0, d, 0, 0, 0, 0, 0, 0, 0, d, 0]);
					}
				}
			}
		}
	}
	assert_eq!(mism, 0, "fast reference disagrees with refmodel::dec_compact on {} strings", mism);
	acc.evaluations = n;
	acc.states = n;
	acc.transitions = n;
	acc.nontrivial = n;
	acc.outcome("reference-self-consistent");
	rep.part("reference cross-check", "fast reference decoder == refmodel::dec_compact (machinery self-check)", acc);

	// every value of u8/u16/u32 (u8 and u16 are sub-ranges), split into 4096 work items
	let items: Vec<u128> = (0..4096u128).collect();
	let thorough = tier.thorough();
	let acc = par(&items, |i, acc| {
		let lo = i << 20;
		if lo == 0 {
			values_range(0, 1 << 16, acc);
			block(acc, |a| values_range_fast(1 << 16, 1 << 20, true, a));
		} else {
			// quick tier: values >= 2^24 go through the native 32-bit width only (the other widths
			// share no code with the value beyond the mode split, which the windows cover)
			block(acc, |a| values_range_fast(lo, lo + (1 << 20), thorough || lo < 1 << 24, a));
		}
		acc.outcome("value-range");
	});
	rep.part("every u32 value", "all 2^32 values through Compact<W> for every width able to hold them: bytes, compact_len, entry points, decode under all five widths", acc);

	// 64/128-bit: mode boundaries +-4096
	let mut bounds: Vec<u128> = vec![];
	for k in [6u32, 14, 30, 32, 40, 48, 56, 64, 72, 80, 88, 96, 104, 112, 120] {
		bounds.push(1u128 << k);
	}
	bounds.push(u64::MAX as u128);
	bounds.push(u128::MAX - 4096);
	let acc = par(&bounds, |c, acc| {
		let lo = c.saturating_sub(4096);
		let hi = c.saturating_add(4097);
		values_range(lo, hi, acc);
		acc.outcome("boundary-window");
	});
	rep.part("class boundaries +-4096", "every value within 4096 of each mode/length boundary up to 2^120, u64::MAX and u128::MAX", acc);

	// values with at most two non-zero byte lanes
	let mut pairs: Vec<(u32, u32, u32, bool)> = vec![];
	for bits in [64u32, 128] {
		for a in 0..bits / 8 {
			for b in a + 1..bits / 8 {
				pairs.push((bits, a, b, false));
				pairs.push((bits, a, b, true));
			}
		}
	}
	let acc = par(&pairs, |(bits, a, b, ff), acc| {
		lane_values(*bits, *a, *b, *ff, acc);
		acc.outcome("lane-pair");
	});
	rep.part("two free byte lanes", "all 65536 values of every pair of byte lanes of u64 and u128, remaining lanes 00 or ff", acc);

	// every byte string the 8/16/32-bit decoders can distinguish
	let firsts: Vec<u8> = (0..=255u8).collect();
	let acc = par(&firsts, |f, acc| {
		heartbeat(&format!("strings first byte {:02x}", f));
		block(acc, |a| distinguishable::<u8>(*f, false, a));
		block(acc, |a| distinguishable::<u16>(*f, false, a));
		block(acc, |a| distinguishable::<u32>(*f, true, a));
		// the one-, two- and four-byte modes of the wide decoders are separate code: same strings
		block(acc, |a| distinguishable::<u64>(*f, false, a));
		block(acc, |a| distinguishable::<u128>(*f, false, a));
		acc.outcome("first-byte-class");
	});
	rep.part("distinguishable strings", "for each of the five decoders: one-byte strings, all 2-byte mode-1 strings, all 2^30 four-byte mode-2 strings and every proper prefix, the larger tags with boundary payloads", acc);

	let tops: Vec<u8> = if tier.thorough() { (0..=255u8).collect() } else { vec![0, 1, 0x3f, 0x40, 0x41, 0x7f, 0x80, 0xc0, 0xfe, 0xff] };
	let acc = par(&tops, |t, acc| {
		block(acc, |a| tag03::<u32>(*t, a));
		acc.outcome("tag03-top-byte");
	});
	rep.part(
		"tag 03 payloads (32-bit)",
		if tier.thorough() { "all 2^32 payloads after tag 03" } else { "all 2^24 payloads for each of 10 boundary top bytes (thorough: all 2^32)" },
		acc,
	);

	let tags: Vec<u8> = (0..64u8).collect();
	let acc = par(&tags, |t, acc| {
		block(acc, |a| wide_strings::<u64>(*t, a));
		block(acc, |a| wide_strings::<u128>(*t, a));
		block(acc, |a| wide_strings::<u32>(*t, a));
		acc.outcome("length-tag");
	});
	rep.part("length-tagged strings (64/128-bit)", "every length tag x supplied payload length {n-1,n,n+1} x top byte x second-top byte x fill {00,ff,lane}", acc);

	rep.rule = "exhaustive enumeration: every u8/u16/u32 value; every byte string the 8/16/32-bit decoders can distinguish; for 64/128 bit the boundary windows, \
		two-free-lane values and tag x length x top-bytes strings. A case is a value (checked under all five widths) or a (width, byte string); all are non-trivial and distinct by construction"
		.into();
	rep.bounds = json!({"u32_values": "all 2^32", "tag03_payload_top_bytes": tops.len(), "windows": 4096});
	rep.assumptions = vec!["the '>= 10^8 random values' clause of the quantifier is sampling and is not done".into()];
	if !tier.thorough() {
		rep.caps.push("quick tier: tag-03 payloads restricted to 10 top-byte values (2^24 payloads each), and values >= 2^24 are checked under Compact<u32> only; thorough covers all 2^32 payloads and all five widths".into());
	}
	rep
}

pub fn replay(case: &Json) -> Option<String> {
	match case["sub"].as_str().unwrap() {
		"C04.value" => check_value(case["value"].as_str().unwrap().parse().unwrap()).err(),
		"C04.string" => {
			let s = unhex(case["bytes"].as_str().unwrap());
			match case["width"].as_u64().unwrap() {
				8 => check_string::<u8>(&s).err(),
				16 => check_string::<u16>(&s).err(),
				32 => check_string::<u32>(&s).err(),
				64 => check_string::<u64>(&s).err(),
				_ => check_string::<u128>(&s).err(),
			}
		},
		_ => None,
	}
}

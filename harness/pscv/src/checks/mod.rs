pub mod c01;

//! The input wrappers (CountedInput, depth tracking, memory tracking) as state machines, driven
//! through the public API by `Script` (a `Decode` impl performing a program of `Input` calls),
//! compared step by step with the product of three boring reference machines.

use crate::common::*;
use parity_scale_codec::Decode;
use serde_json::{json, Value as Json};
use subjects::{
	drivers::{run_stack, script_observed, script_set, Cmd, Obs, Script, Wrap},
	inputs::{DynIn, Ev, RecIn},
};

pub const DATA: [u8; 5] = [0x11, 0x22, 0x33, 0x44, 0x55];

/// Reference semantics of a stack (index 0 = innermost wrapper) for one program.
/// Returns the predicted observations and the events the base input must have seen for the
/// commands that succeeded.
pub fn predict(stack: &[Wrap], program: &[Cmd]) -> (Vec<Obs>, Vec<Ev>, u64) {
	let mut depth: Vec<u32> = vec![0; stack.len()];
	let mut used: Vec<usize> = vec![0; stack.len()];
	let mut pos = 0usize;
	let mut obs = vec![];
	let mut log = vec![];
	for c in program {
		match *c {
			Cmd::Descend => {
				let mut ok = true;
				for (i, w) in stack.iter().enumerate() {
					if let Wrap::Depth(max) = w {
						depth[i] += 1;
						if depth[i] > *max {
							ok = false;
							break;
						}
					}
				}
				if !ok {
					obs.push(Obs::Err);
					break;
				}
				obs.push(Obs::Ok);
				log.push(Ev::Descend);
			},
			Cmd::Ascend => {
				for (i, w) in stack.iter().enumerate() {
					if let Wrap::Depth(_) = w {
						depth[i] -= 1;
					}
				}
				obs.push(Obs::Ok);
				log.push(Ev::Ascend);
			},
			Cmd::Alloc(n) => {
				let mut ok = true;
				for (i, w) in stack.iter().enumerate() {
					if let Wrap::Mem(limit) = w {
						used[i] = used[i].saturating_add(n);
						if used[i] >= *limit {
							ok = false;
							break;
						}
					}
				}
				if !ok {
					obs.push(Obs::Err);
					break;
				}
				obs.push(Obs::Ok);
				log.push(Ev::Alloc(n));
			},
			Cmd::Read(n) =>
				if n <= DATA.len() - pos {
					obs.push(Obs::Bytes(DATA[pos..pos + n].to_vec()));
					pos += n;
					log.push(Ev::Read(n, true));
				} else {
					obs.push(Obs::Err);
					break;
				},
			Cmd::ReadByte =>
				if pos < DATA.len() {
					obs.push(Obs::Bytes(vec![DATA[pos]]));
					pos += 1;
					log.push(Ev::ReadByte(true));
				} else {
					obs.push(Obs::Err);
					break;
				},
			Cmd::Len => {
				obs.push(Obs::Len(Some(DATA.len() - pos)));
				log.push(Ev::Len);
			},
		}
	}
	// fingerprint of the model state (for the distinct-states statistic)
	let mut h = 0u64;
	for d in &depth {
		h = h.wrapping_mul(31).wrapping_add(*d as u64);
	}
	for u in &used {
		h = h.wrapping_mul(1_000_003).wrapping_add(*u as u64);
	}
	h = h.wrapping_mul(17).wrapping_add(pos as u64).wrapping_mul(7).wrapping_add(obs.len() as u64);
	(obs, log, h)
}

pub fn execute(stack: &[Wrap], program: &[Cmd]) -> (Vec<Obs>, Vec<Ev>, bool) {
	script_set(program);
	let mut base = RecIn::new(&DATA);
	let ok = run_stack(&mut base, stack, &mut |inp| Script::decode(&mut DynIn(inp)).is_ok());
	(script_observed(), base.log, ok)
}

pub fn check(stack: &[Wrap], program: &[Cmd]) -> Result<u64, String> {
	let (want_obs, want_log, fp) = predict(stack, program);
	let (obs, log, ok) = guarded(|| execute(stack, program)).map_err(|p| format!("panicked: {}", p))?;
	if obs != want_obs {
		return Err(format!("observations through the stack {:?} differ: got {:?}, reference {:?}", stack, obs, want_obs));
	}
	let failed = want_obs.last() == Some(&Obs::Err);
	if ok == failed {
		return Err(format!("overall result differs: decode returned {}", if ok { "Ok" } else { "Err" }));
	}
	// the base input must have seen every successful call, in order
	if log.len() < want_log.len() || log[..want_log.len()] != want_log[..] {
		return Err(format!("calls that reached the wrapped input differ: got {:?}, reference {:?}", log, want_log));
	}
	Ok(fp)
}

/// Enabled commands after `program` (ascend only when balanced).
fn enabled(alphabet: &[Cmd], program: &[Cmd]) -> Vec<Cmd> {
	let bal = program.iter().fold(0i32, |b, c| match c {
		Cmd::Descend => b + 1,
		Cmd::Ascend => b - 1,
		_ => b,
	});
	alphabet.iter().copied().filter(|c| *c != Cmd::Ascend || bal > 0).collect()
}

fn rec(stack: &[Wrap], alphabet: &[Cmd], program: &mut Vec<Cmd>, depth: usize, acc: &mut Acc, property: &str, sub: &str) {
	acc.evaluations += 1;
	acc.transitions += program.len() as u64 + 1;
	match check(stack, program) {
		Ok(fp) => {
			acc.traces += 1;
			if !acc.seen(&(stack.to_vec(), fp)) {
				acc.states += 1;
			}
			if program.len() >= 2 {
				acc.nontrivial += 1;
			}
			// a failed program has no continuation (decoders propagate the error)
			let (obs, _, _) = predict(stack, program);
			if obs.last() == Some(&Obs::Err) {
				acc.add("programs_ending_in_error", 1);
				return;
			}
		},
		Err(detail) => {
			acc.violate(Violation {
				property: property.into(),
				sub: sub.into(),
				key: format!("{}|wrapper-stack|{}", property, sub),
				detail: format!("program {:?}: {}", program, detail),
				case: json!({"sub": sub, "stack": stack_json(stack), "program": program_json(program)}),
			});
			return;
		},
	}
	if program.len() < depth {
		for c in enabled(alphabet, program) {
			program.push(c);
			rec(stack, alphabet, program, depth, acc, property, sub);
			program.pop();
		}
	}
}

pub fn explore(stacks: &[Vec<Wrap>], alphabet: &[Cmd], depth: usize, property: &'static str, sub: &'static str) -> Acc {
	// work items: (stack, first command)
	let mut items: Vec<(usize, Option<Cmd>)> = vec![];
	for (i, _) in stacks.iter().enumerate() {
		items.push((i, None));
		for c in enabled(alphabet, &[]) {
			items.push((i, Some(c)));
		}
	}
	let mut acc = par(&items, |(i, first), acc| {
		let stack = &stacks[*i];
		match first {
			None => {
				// the empty program only
				acc.evaluations += 1;
				if let Err(detail) = check(stack, &[]) {
					acc.violate(Violation {
						property: property.into(),
						sub: sub.into(),
						key: format!("{}|wrapper-stack|{}", property, sub),
						detail,
						case: json!({"sub": sub, "stack": stack_json(stack), "program": []}),
					});
				}
			},
			Some(c) => {
				let mut p = vec![*c];
				rec(stack, alphabet, &mut p, depth, acc, property, sub);
			},
		}
	});
	acc.states = acc.distinct.len() as u64;
	acc.add("stacks", stacks.len() as u64);
	acc.outcome(if acc.violations.is_empty() { "stack-machines-agree" } else { "mismatch" });
	acc
}

pub fn stack_json(s: &[Wrap]) -> Json {
	Json::Array(
		s.iter()
			.map(|w| match w {
				Wrap::Counted => json!("counted"),
				Wrap::Depth(d) => json!({ "depth": d }),
				Wrap::Mem(m) => json!({"mem": m.to_string()}),
			})
			.collect(),
	)
}
pub fn stack_from_json(j: &Json) -> Vec<Wrap> {
	j.as_array()
		.unwrap()
		.iter()
		.map(|w| {
			if w == "counted" {
				Wrap::Counted
			} else if let Some(d) = w.get("depth") {
				Wrap::Depth(d.as_u64().unwrap() as u32)
			} else {
				Wrap::Mem(w["mem"].as_str().unwrap().parse().unwrap())
			}
		})
		.collect()
}
pub fn program_json(p: &[Cmd]) -> Json {
	Json::Array(
		p.iter()
			.map(|c| match c {
				Cmd::Descend => json!("descend"),
				Cmd::Ascend => json!("ascend"),
				Cmd::Alloc(n) => json!({"alloc": n.to_string()}),
				Cmd::Read(n) => json!({ "read": n }),
				Cmd::ReadByte => json!("read_byte"),
				Cmd::Len => json!("remaining_len"),
			})
			.collect(),
	)
}
pub fn program_from_json(j: &Json) -> Vec<Cmd> {
	j.as_array()
		.unwrap()
		.iter()
		.map(|c| {
			if c == "descend" {
				Cmd::Descend
			} else if c == "ascend" {
				Cmd::Ascend
			} else if c == "read_byte" {
				Cmd::ReadByte
			} else if c == "remaining_len" {
				Cmd::Len
			} else if let Some(n) = c.get("alloc") {
				Cmd::Alloc(n.as_str().unwrap().parse().unwrap())
			} else {
				Cmd::Read(c["read"].as_u64().unwrap() as usize)
			}
		})
		.collect()
}

pub fn replay(case: &Json) -> Option<String> {
	check(&stack_from_json(&case["stack"]), &program_from_json(&case["program"])).err()
}

/// All sequences of length 1..=3 over the given layers.
pub fn stacks_over(layers: &[Wrap]) -> Vec<Vec<Wrap>> {
	let mut out = vec![];
	for a in layers {
		out.push(vec![*a]);
		for b in layers {
			out.push(vec![*a, *b]);
			for c in layers {
				out.push(vec![*a, *b, *c]);
			}
		}
	}
	out
}

#[allow(dead_code)]
fn _t() {
	let _ = Script::decode::<&[u8]>;
}

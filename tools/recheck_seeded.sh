#!/bin/sh
# tools/recheck_seeded.sh <ID> <n> [check ids...]   (SEEDED_DIR selects the round)
# Applies an already confirmed seeded change to /repo, runs the quick tier of the given checks (default: the
# change's own property) and reverts /repo straight afterwards. Appends the outcome to recheck<n>.txt (to
# first<n>.txt as a first-run line with PHASE=first).
set -u
ID="$1"; N="$2"; shift 2
CHECKS="${*:-$ID}"
OUT=${SEEDED_DIR:-/tmp/seeded_out}/$ID
PATCH=$OUT/patch$N.diff
if ! git -C /repo diff --quiet; then echo "/repo is dirty, refusing"; exit 2; fi
git -C /repo apply "$PATCH" || { echo "patch does not apply to /repo"; exit 3; }
for C in $CHECKS; do
  /verif/check "$C" --tier quick >"$OUT/recheck_${C}_$N.log" 2>&1
  rc=$?
  LINE="exit=$rc violation_lines=$(grep -c '^VIOLATION' "$OUT/recheck_${C}_$N.log") first: $(grep -m1 'violation key' "$OUT/recheck_${C}_$N.log" | cut -c1-260)"
  if [ "${PHASE:-}" = first ]; then echo "check $C quick: $LINE" | tee -a "$OUT/first$N.txt"; else echo "recheck $ID-$N by $C quick: $LINE" | tee -a "$OUT/recheck$N.txt"; fi
done
git -C /repo checkout -- .

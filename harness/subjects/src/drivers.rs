//! Harness-side element types used as sharp drivers (DESIGN.md §2.2).

use crate::{inputs::DynIn, Subject};
use parity_scale_codec::{
	CountedInput, Decode, DecodeLimit, DecodeWithMemTracking, Encode, Error, Input,
	MemTrackingInput, Output,
};
use refmodel::{Shape, Value};
use std::cell::RefCell;

// ------------------------------------------------------------------------------------------
// Twin<T>: same wire format as T, but invisible to the fake specialisation (TYPE_INFO = Unknown),
// so sequences of it always take the element-wise path.
// ------------------------------------------------------------------------------------------

#[derive(Clone, Debug, PartialEq, Eq, PartialOrd, Ord)]
pub struct Twin<T>(pub T);

impl<T: Encode> Encode for Twin<T> {
	fn size_hint(&self) -> usize {
		self.0.size_hint()
	}
	fn encode_to<W: Output + ?Sized>(&self, dest: &mut W) {
		self.0.encode_to(dest)
	}
}
impl<T: Decode> Decode for Twin<T> {
	fn decode<I: Input>(input: &mut I) -> Result<Self, Error> {
		T::decode(input).map(Twin)
	}
}
impl<T: DecodeWithMemTracking> DecodeWithMemTracking for Twin<T> {}

impl<T: Subject> Subject for Twin<T> {
	const ZW: bool = T::ZW;
	fn shape() -> Shape {
		T::shape()
	}
	fn from_value(v: &Value) -> Self {
		Twin(T::from_value(v))
	}
	fn to_value(&self) -> Value {
		self.0.to_value()
	}
	fn zw_instance() -> Self {
		Twin(T::zw_instance())
	}
	fn heap_payload(&self) -> (usize, usize) {
		self.0.heap_payload()
	}
}

// ------------------------------------------------------------------------------------------
// RestLen: decodes to what the input reports as remaining; appended to a tuple it exposes
// consumption where the API does not.
// ------------------------------------------------------------------------------------------

#[derive(Clone, Debug, PartialEq, Eq)]
pub struct RestLen(pub Option<usize>);

impl Decode for RestLen {
	fn decode<I: Input>(input: &mut I) -> Result<Self, Error> {
		Ok(RestLen(input.remaining_len()?))
	}
}

// ------------------------------------------------------------------------------------------
// Tracked: a droppable element with a construction/drop ledger. Its decoder obeys a command byte.
// ------------------------------------------------------------------------------------------

/// Construction/drop ledger. It never allocates while a decode is being observed (the live set is a
/// preallocated bitmap), so that the harness's allocation accounting sees only the subject.
#[derive(Default, Debug)]
pub struct Ledger {
	pub next_id: u64,
	pub live: Vec<bool>,
	pub live_count: u64,
	pub constructed: u64,
	pub dropped: u64,
	pub errors: Vec<String>,
}

thread_local! {
	pub static LEDGER: RefCell<Ledger> = RefCell::new(Ledger::default());
}

pub const LEDGER_CAP: usize = 1 << 16;

pub fn ledger_reset() {
	LEDGER.with(|l| {
		let mut l = l.borrow_mut();
		l.next_id = 0;
		l.live_count = 0;
		l.constructed = 0;
		l.dropped = 0;
		l.errors.clear();
		if l.live.len() != LEDGER_CAP {
			l.live = vec![false; LEDGER_CAP];
		} else {
			l.live.iter_mut().for_each(|x| *x = false);
		}
	});
}

/// (constructed, dropped, number live, errors)
pub fn ledger_snapshot() -> (u64, u64, u64, Vec<String>) {
	LEDGER.with(|l| {
		let l = l.borrow();
		(l.constructed, l.dropped, l.live_count, l.errors.clone())
	})
}

pub const CMD_ERR: u8 = 0xe0;
pub const CMD_PANIC: u8 = 0xee;
pub const CMD_DEPTH: u8 = 0xd0;
pub const CMD_MEM: u8 = 0xa0;

#[derive(Debug)]
pub struct Tracked {
	pub id: u64,
	pub tag: u8,
	/// owning a heap block turns a double drop or a leak into a heap event for the sanitizer run
	pub heap: Box<u64>,
}

impl Tracked {
	pub fn new(tag: u8) -> Self {
		LEDGER.with(|l| {
			let mut l = l.borrow_mut();
			let id = l.next_id;
			l.next_id += 1;
			l.constructed += 1;
			if (id as usize) < l.live.len() {
				l.live[id as usize] = true;
			}
			l.live_count += 1;
			Tracked { id, tag, heap: Box::new(id) }
		})
	}
}

/// What a `#[codec(skip)]` field of this type is reset to: a real, ledgered instance.
impl Default for Tracked {
	fn default() -> Self {
		Tracked::new(0xdf)
	}
}

impl Drop for Tracked {
	fn drop(&mut self) {
		let id = self.id;
		let heap = *self.heap;
		// never panic inside drop: record instead
		let _ = LEDGER.try_with(|l| {
			if let Ok(mut l) = l.try_borrow_mut() {
				l.dropped += 1;
				if heap != id {
					l.errors.push(format!("instance {} dropped with corrupted heap block {}", id, heap));
				}
				let was_live = (id as usize) < l.live.len() && l.live[id as usize];
				if was_live {
					l.live[id as usize] = false;
					l.live_count -= 1;
				} else {
					l.errors.push(format!("instance {} dropped twice or never constructed", id));
				}
			}
		});
	}
}

impl Decode for Tracked {
	fn decode<I: Input>(input: &mut I) -> Result<Self, Error> {
		let cmd = input.read_byte()?;
		match cmd {
			CMD_ERR => Err("Tracked: malformed element".into()),
			CMD_PANIC => panic!("Tracked: element decoder panics"),
			CMD_DEPTH => {
				// fails under any depth limit below 64; harmless without one
				for _ in 0..64 {
					input.descend_ref()?;
				}
				for _ in 0..64 {
					input.ascend_ref();
				}
				Ok(Tracked::new(cmd))
			},
			CMD_MEM => {
				// fails under any memory limit; harmless without one
				input.on_before_alloc_mem(usize::MAX / 2)?;
				Ok(Tracked::new(cmd))
			},
			tag => Ok(Tracked::new(tag)),
		}
	}
}
impl DecodeWithMemTracking for Tracked {}

/// A *zero-sized* droppable element: only its construction and drop counts can be observed
/// (a double drop shows as more drops than constructions).
#[derive(Debug)]
pub struct ZTracked;

impl ZTracked {
	pub fn new() -> Self {
		LEDGER.with(|l| {
			let mut l = l.borrow_mut();
			l.constructed += 1;
			l.live_count += 1;
		});
		ZTracked
	}
}

impl Drop for ZTracked {
	fn drop(&mut self) {
		let _ = LEDGER.try_with(|l| {
			if let Ok(mut l) = l.try_borrow_mut() {
				l.dropped += 1;
				if l.live_count == 0 {
					l.errors.push("a zero-sized instance was dropped although none is live (double drop)".to_string());
				} else {
					l.live_count -= 1;
				}
			}
		});
	}
}

impl Decode for ZTracked {
	fn decode<I: Input>(input: &mut I) -> Result<Self, Error> {
		let cmd = input.read_byte()?;
		match cmd {
			CMD_ERR => Err("ZTracked: malformed element".into()),
			CMD_PANIC => panic!("ZTracked: element decoder panics"),
			CMD_DEPTH => {
				for _ in 0..64 {
					input.descend_ref()?;
				}
				for _ in 0..64 {
					input.ascend_ref();
				}
				Ok(ZTracked::new())
			},
			CMD_MEM => {
				input.on_before_alloc_mem(usize::MAX / 2)?;
				Ok(ZTracked::new())
			},
			_ => Ok(ZTracked::new()),
		}
	}
}
impl DecodeWithMemTracking for ZTracked {}

// ------------------------------------------------------------------------------------------
// Script: a Decode impl that performs a program of Input-trait calls; the narrowest seam that
// drives the private wrapper state machines through the public API.
// ------------------------------------------------------------------------------------------

#[derive(Clone, Copy, Debug, PartialEq, Eq, Hash, PartialOrd, Ord)]
pub enum Cmd {
	Descend,
	Ascend,
	Alloc(usize),
	Read(usize),
	ReadByte,
	Len,
}

#[derive(Clone, Debug, PartialEq, Eq, Hash)]
pub enum Obs {
	Ok,
	Err,
	Bytes(Vec<u8>),
	Len(Option<usize>),
}

thread_local! {
	static PROGRAM: RefCell<Vec<Cmd>> = RefCell::new(vec![]);
	static OBSERVED: RefCell<Vec<Obs>> = RefCell::new(vec![]);
}

pub fn script_set(program: &[Cmd]) {
	PROGRAM.with(|p| *p.borrow_mut() = program.to_vec());
	OBSERVED.with(|o| o.borrow_mut().clear());
}

pub fn script_observed() -> Vec<Obs> {
	OBSERVED.with(|o| o.borrow().clone())
}

fn obs(o: Obs) {
	OBSERVED.with(|x| x.borrow_mut().push(o));
}

/// Run a program of trait calls against an input; stops at the first failing call (like real
/// decoders, which propagate the error).
pub fn run_program<I: Input + ?Sized>(input: &mut I, program: &[Cmd]) -> Result<(), Error> {
	for c in program {
		match *c {
			Cmd::Descend => match input.descend_ref() {
				Ok(()) => obs(Obs::Ok),
				Err(e) => {
					obs(Obs::Err);
					return Err(e);
				},
			},
			Cmd::Ascend => {
				input.ascend_ref();
				obs(Obs::Ok)
			},
			Cmd::Alloc(n) => match input.on_before_alloc_mem(n) {
				Ok(()) => obs(Obs::Ok),
				Err(e) => {
					obs(Obs::Err);
					return Err(e);
				},
			},
			Cmd::Read(n) => {
				let mut buf = vec![0u8; n];
				match input.read(&mut buf) {
					Ok(()) => obs(Obs::Bytes(buf)),
					Err(e) => {
						obs(Obs::Err);
						return Err(e);
					},
				}
			},
			Cmd::ReadByte => match input.read_byte() {
				Ok(x) => obs(Obs::Bytes(vec![x])),
				Err(e) => {
					obs(Obs::Err);
					return Err(e);
				},
			},
			Cmd::Len => match input.remaining_len() {
				Ok(l) => obs(Obs::Len(l)),
				Err(e) => {
					obs(Obs::Err);
					return Err(e);
				},
			},
		}
	}
	Ok(())
}

pub struct Script;

impl Decode for Script {
	fn decode<I: Input>(input: &mut I) -> Result<Self, Error> {
		let program = PROGRAM.with(|p| p.borrow().clone());
		run_program(input, &program)?;
		Ok(Script)
	}
}
impl DecodeWithMemTracking for Script {}

// ------------------------------------------------------------------------------------------
// Dynamic wrapper stacks. `Depth` can only be entered through `decode_with_depth_limit`, so the
// remaining stack is continued from inside a `Decode` impl (`Cont`).
// ------------------------------------------------------------------------------------------

#[derive(Clone, Copy, Debug, PartialEq, Eq, Hash, PartialOrd, Ord)]
pub enum Wrap {
	Counted,
	Depth(u32),
	Mem(usize),
}

type Finish<'a> = dyn FnMut(&mut dyn Input) -> bool + 'a;

thread_local! {
	// (pointer to the rest of the stack, its length, pointer to the finish closure)
	static CONT: RefCell<Vec<(*const Wrap, usize, *mut Finish<'static>)>> = RefCell::new(vec![]);
}

struct Cont;

impl Decode for Cont {
	fn decode<I: Input>(input: &mut I) -> Result<Self, Error> {
		let (p, n, f) = CONT.with(|c| c.borrow_mut().pop()).expect("Cont without continuation");
		// SAFETY: the pointers were created by `go` below from references that outlive this
		// synchronous call.
		let rest: &[Wrap] = unsafe { std::slice::from_raw_parts(p, n) };
		let finish: &mut Finish<'_> = unsafe { &mut *f };
		if go(input, rest, finish) {
			Ok(Cont)
		} else {
			Err("Cont: inner decode failed".into())
		}
	}
}

fn go(cur: &mut dyn Input, rest: &[Wrap], finish: &mut Finish<'_>) -> bool {
	match rest.split_first() {
		None => finish(cur),
		Some((Wrap::Counted, r)) => {
			let mut d = DynIn(cur);
			let mut c = CountedInput::new(&mut d);
			go(&mut c, r, finish)
		},
		Some((Wrap::Mem(limit), r)) => {
			let mut d = DynIn(cur);
			let mut c = MemTrackingInput::new(&mut d, *limit);
			go(&mut c, r, finish)
		},
		Some((Wrap::Depth(limit), r)) => {
			let mut d = DynIn(cur);
			// SAFETY: lifetime erasure only; the entry is consumed by `Cont::decode` during the
			// call below (or removed afterwards if decoding failed before reaching it).
			let f: *mut Finish<'static> = unsafe { std::mem::transmute(finish as *mut Finish<'_>) };
			let depth_before = CONT.with(|c| {
				let mut c = c.borrow_mut();
				c.push((r.as_ptr(), r.len(), f));
				c.len()
			});
			let ok = Cont::decode_with_depth_limit(*limit, &mut d).is_ok();
			CONT.with(|c| c.borrow_mut().truncate(depth_before - 1));
			ok
		},
	}
}

/// Build `stack` (outermost wrapper last) over `base` and call `finish` with the top of the stack.
/// Returns what `finish` returned (false also if a wrapper made the continuation fail).
pub fn run_stack(base: &mut dyn Input, stack: &[Wrap], finish: &mut Finish<'_>) -> bool {
	go(base, stack, finish)
}


// ------------------------------------------------------------------------------------------
// Untracked: a decodable type that holds heap data but neither announces it nor is marked
// `DecodeWithMemTracking`. No composition of it may be memory-tracking; the registry's compile-time
// probe finds out whether the crate's marker impls (wrongly) say otherwise, and C12 then shows
// that the tracked usage does not cover the heap data.
// ------------------------------------------------------------------------------------------

#[derive(Clone, Debug, PartialEq, Eq, PartialOrd, Ord)]
pub struct Untracked(pub Vec<u8>);

impl Encode for Untracked {
	fn encode_to<W: Output + ?Sized>(&self, dest: &mut W) {
		self.0.encode_to(dest)
	}
}
impl Decode for Untracked {
	fn decode<I: Input>(input: &mut I) -> Result<Self, Error> {
		// deliberately no `on_before_alloc_mem`
		let n = <parity_scale_codec::Compact<u32>>::decode(input)?.0 as usize;
		let mut v = Vec::new();
		for _ in 0..n {
			v.push(input.read_byte()?);
		}
		Ok(Untracked(v))
	}
}
impl Subject for Untracked {
	fn shape() -> Shape {
		Shape::Seq(refmodel::SeqKind::Vec, Box::new(Shape::UInt(8)))
	}
	fn from_value(v: &Value) -> Self {
		Untracked(<Vec<u8>>::from_value(v))
	}
	fn to_value(&self) -> Value {
		self.0.to_value()
	}
	fn heap_payload(&self) -> (usize, usize) {
		(self.0.len(), 0)
	}
}

//! C13 — declared maximum / constant / fixed encoded lengths are true.

use crate::common::*;
use refmodel::{domain, ref_enc, side, Shape, Value};
use serde_json::{json, Value as Json};
use subjects::vt::VT;

pub fn check(vt: &VT, shape: &Shape, v: &Value) -> Result<Option<usize>, String> {
	if ref_enc(shape, v).is_err() {
		return Ok(None);
	}
	let enc = guarded(|| (vt.encode)(v)).map_err(|p| format!("encode panicked: {}", p))?;
	let n = enc.len();
	if let Some(mel) = vt.mel {
		let m = guarded(mel).map_err(|p| format!("max_encoded_len panicked: {}", p))?;
		if n > m {
			return Err(format!("value {} encodes to {} bytes but max_encoded_len() = {}", value_short(v), n, m));
		}
		if vt.cel && n != m {
			return Err(format!("ConstEncodedLen type: value {} encodes to {} bytes, declared {}", value_short(v), n, m));
		}
	}
	if let Some(f) = (vt.fixed_size)() {
		if n != f {
			return Err(format!("encoded_fixed_size() = {} but value {} encodes to {} bytes", f, value_short(v), n));
		}
	}
	Ok(Some(n))
}

fn relevant(vt: &VT) -> bool {
	vt.mel.is_some() || (vt.fixed_size)().is_some()
}

pub fn run(tier: Tier, reg: &[VT]) -> Report {
	let mut rep = Report::new("C13", tier);
	let b = if tier.thorough() { domain::Bound::thorough() } else { domain::Bound::quick() };
	let types: Vec<&VT> = reg.iter().filter(|v| relevant(v)).collect();
	// Ask every type for its declared lengths once, sequentially, in registry order, before anything runs in
	// parallel: whatever an implementation carries across calls (a cached constant, a function-local static
	// shared by all instantiations of a generic definition) is then fixed by a deterministic history in which
	// the second instantiation of every generic definition (`<u8>`) is asked before the first (`<u16>`).
	for vt in &types {
		if let Some(mel) = vt.mel {
			let _ = guarded(mel);
		}
		let _ = guarded(|| (vt.fixed_size)());
	}
	let acc = par(&types, |vt, acc| {
		heartbeat(vt.name);
		let shape = (vt.shape)();
		let mut vals = domain::values(&shape, &b);
		let mut witness = false;
		if let Some(w) = side::max_witness(&shape) {
			vals.push(w);
			witness = true;
		}
		let last = vals.len() - 1;
		for (i, v) in vals.iter().enumerate() {
			acc.evaluations += 1;
			acc.transitions += 2;
			match check(vt, &shape, v) {
				Ok(Some(n)) => {
					acc.states += 1;
					acc.traces += 1;
					if n > 0 {
						acc.nontrivial += 1;
					}
					if witness && i == last {
						acc.add("maximal_witnesses", 1);
						let m = vt.mel.map(|f| f());
						acc.outcome(if m == Some(n) { "witness-reaches-declared-max" } else { "witness-below-declared-max" });
						if acc.samples.len() < 3 {
							acc.sample(json!({"type": vt.name, "maximal_witness": value_short(v), "encoded_len": n, "declared_max": m}));
						}
					} else {
						acc.outcome("within-bound");
					}
				},
				Ok(None) => acc.outcome("no-encoding"),
				Err(detail) => acc.violate(Violation {
					property: "C13".into(),
					sub: "C13.len".into(),
					key: format!("C13|{}|declared-length", vt.name),
					detail,
					case: json!({"sub": "C13.len", "type": vt.name, "value": value_to_json(v)}),
				}),
			}
		}
	});
	rep.part(
		"declared lengths",
		"every MaxEncodedLen / ConstEncodedLen / fixed-size registry type (built-in and generated derive definitions) x boundary domain + the reference model's maximal witness",
		acc,
	);
	rep.rule = "case = (type, value); values are the boundary domain plus a maximal-encoding witness computed by the reference model from the shape; \
		non-trivial = non-empty encoding; the declared number is only compared with actual encoded lengths, never with an expected constant"
		.into();
	rep.bounds = json!({"types_with_declared_lengths": types.len(), "seq_len": b.seq_len});
	rep
}

pub fn replay(reg: &[VT], case: &Json) -> Option<String> {
	let vt = find_vt(reg, case["type"].as_str().unwrap());
	check(vt, &(vt.shape)(), &value_from_json(&case["value"])).err()
}

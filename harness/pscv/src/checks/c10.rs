//! C10 — failed or panicking decodes release everything exactly once.

use crate::common::*;
use parity_scale_codec::{Decode, DecodeLimit, DecodeWithMemLimit, DecodeWithMemTracking};
use serde_json::{json, Value as Json};
use std::{
	collections::{BTreeMap, LinkedList, VecDeque},
	rc::Rc,
	sync::Arc,
};
use subjects::drivers::{ledger_reset, ledger_snapshot, Tracked, ZTracked, CMD_DEPTH, CMD_ERR, CMD_MEM, CMD_PANIC};

#[derive(Clone, Copy, Debug, PartialEq, Eq)]
pub enum Fault {
	None,
	Exhausted,
	Malformed,
	DepthLimit,
	MemLimit,
	Panic,
	/// all elements valid, but the depth limit (= the position parameter) is hit at one of the
	/// holder's own container levels
	ContainerDepth,
	/// all elements valid, memory limit = position parameter * 8 bytes
	ContainerMem,
}

pub const FAULTS: [Fault; 8] =
	[Fault::None, Fault::Exhausted, Fault::Malformed, Fault::DepthLimit, Fault::MemLimit, Fault::Panic, Fault::ContainerDepth, Fault::ContainerMem];

impl Fault {
	pub fn name(&self) -> &'static str {
		match self {
			Fault::None => "none",
			Fault::Exhausted => "input-exhausted",
			Fault::Malformed => "malformed-element",
			Fault::DepthLimit => "depth-limit",
			Fault::MemLimit => "mem-limit",
			Fault::Panic => "panic-in-element",
			Fault::ContainerDepth => "depth-limit-at-container",
			Fault::ContainerMem => "mem-limit-at-container",
		}
	}
	fn from_name(s: &str) -> Fault {
		*FAULTS.iter().find(|f| f.name() == s).unwrap()
	}
}

/// A container of `Tracked` elements: how many elements it decodes and how its input is laid out.
pub trait Holder: Decode + DecodeWithMemTracking + 'static {
	const NAME: &'static str;
	/// number of `Tracked` elements a successful decode of `input(n)` constructs
	fn elems(n: usize) -> usize;
	/// bytes before element i, given the element command bytes
	fn input(cmds: &[u8]) -> Vec<u8>;
	fn sizes() -> Vec<usize>;
	/// number of `Tracked` instances owned by a decoded value
	fn owned(&self) -> usize;
}

fn compact(n: usize) -> Vec<u8> {
	let mut v = vec![];
	refmodel::enc_compact(n as u128, &mut v);
	v
}

const SIZES: [usize; 6] = [0, 1, 2, 3, 8, 40];

macro_rules! array_holder {
	($($n:literal),*) => {$(
		impl Holder for [Tracked; $n] {
			const NAME: &'static str = concat!("[Tracked; ", $n, "]");
			fn elems(_: usize) -> usize { $n }
			fn input(cmds: &[u8]) -> Vec<u8> { cmds.to_vec() }
			fn sizes() -> Vec<usize> { vec![$n] }
			fn owned(&self) -> usize { $n }
		}
	)*}
}
array_holder!(0, 1, 2, 3, 8, 40);

impl Holder for Vec<Tracked> {
	const NAME: &'static str = "Vec<Tracked>";
	fn elems(n: usize) -> usize {
		n
	}
	fn input(cmds: &[u8]) -> Vec<u8> {
		let mut v = compact(cmds.len());
		v.extend_from_slice(cmds);
		v
	}
	fn sizes() -> Vec<usize> {
		// 682 elements fill one preallocation chunk: 683 and 1400 put failures into later chunks
		SIZES.iter().copied().chain([683, 1400]).collect()
	}
	fn owned(&self) -> usize {
		self.len()
	}
}
impl Holder for VecDeque<Tracked> {
	const NAME: &'static str = "VecDeque<Tracked>";
	fn elems(n: usize) -> usize {
		n
	}
	fn input(cmds: &[u8]) -> Vec<u8> {
		<Vec<Tracked>>::input(cmds)
	}
	fn sizes() -> Vec<usize> {
		SIZES.to_vec()
	}
	fn owned(&self) -> usize {
		self.len()
	}
}
impl Holder for LinkedList<Tracked> {
	const NAME: &'static str = "LinkedList<Tracked>";
	fn elems(n: usize) -> usize {
		n
	}
	fn input(cmds: &[u8]) -> Vec<u8> {
		<Vec<Tracked>>::input(cmds)
	}
	fn sizes() -> Vec<usize> {
		SIZES.to_vec()
	}
	fn owned(&self) -> usize {
		self.len()
	}
}
impl Holder for BTreeMap<u8, Tracked> {
	const NAME: &'static str = "BTreeMap<u8, Tracked>";
	fn elems(n: usize) -> usize {
		n
	}
	fn input(cmds: &[u8]) -> Vec<u8> {
		let mut v = compact(cmds.len());
		for (i, c) in cmds.iter().enumerate() {
			v.push(i as u8); // distinct keys
			v.push(*c);
		}
		v
	}
	fn sizes() -> Vec<usize> {
		SIZES.to_vec()
	}
	fn owned(&self) -> usize {
		self.len()
	}
}
/// duplicate keys: earlier values are replaced and must be dropped exactly once
pub struct DupMap(pub BTreeMap<u8, Tracked>);
impl Decode for DupMap {
	fn decode<I: parity_scale_codec::Input>(i: &mut I) -> Result<Self, parity_scale_codec::Error> {
		Ok(DupMap(Decode::decode(i)?))
	}
}
impl DecodeWithMemTracking for DupMap {}
impl Holder for DupMap {
	const NAME: &'static str = "BTreeMap<u8, Tracked> (duplicate keys)";
	fn elems(n: usize) -> usize {
		n
	}
	fn input(cmds: &[u8]) -> Vec<u8> {
		let mut v = compact(cmds.len());
		for (i, c) in cmds.iter().enumerate() {
			v.push((i % 3) as u8);
			v.push(*c);
		}
		v
	}
	fn sizes() -> Vec<usize> {
		SIZES.to_vec()
	}
	fn owned(&self) -> usize {
		self.0.len()
	}
}

macro_rules! wrap_holder {
	($w:ident, $inner:ty, $name:expr) => {
		impl Holder for $w<$inner> {
			const NAME: &'static str = $name;
			fn elems(n: usize) -> usize {
				<$inner as Holder>::elems(n)
			}
			fn input(cmds: &[u8]) -> Vec<u8> {
				<$inner as Holder>::input(cmds)
			}
			fn sizes() -> Vec<usize> {
				<$inner as Holder>::sizes()
			}
			fn owned(&self) -> usize {
				(**self).owned()
			}
		}
	};
}
// zero-sized droppable elements (a separate in-place path is tempting for them)
macro_rules! zarray_holder {
	($($n:literal),*) => {$(
		impl Holder for [ZTracked; $n] {
			const NAME: &'static str = concat!("[ZTracked; ", $n, "] (zero-sized element)");
			fn elems(_: usize) -> usize { $n }
			fn input(cmds: &[u8]) -> Vec<u8> { cmds.to_vec() }
			fn sizes() -> Vec<usize> { vec![$n] }
			fn owned(&self) -> usize { $n }
		}
	)*}
}
zarray_holder!(1, 3, 8);
wrap_holder!(Box, [ZTracked; 3], "Box<[ZTracked; 3]>");
wrap_holder!(Rc, [ZTracked; 3], "Rc<[ZTracked; 3]>");
wrap_holder!(Box, ZTracked, "Box<ZTracked>");
impl Holder for ZTracked {
	const NAME: &'static str = "ZTracked";
	fn elems(_: usize) -> usize {
		1
	}
	fn input(cmds: &[u8]) -> Vec<u8> {
		cmds.to_vec()
	}
	fn sizes() -> Vec<usize> {
		vec![1]
	}
	fn owned(&self) -> usize {
		1
	}
}
impl Holder for Vec<ZTracked> {
	const NAME: &'static str = "Vec<ZTracked>";
	fn elems(n: usize) -> usize {
		n
	}
	fn input(cmds: &[u8]) -> Vec<u8> {
		<Vec<Tracked>>::input(cmds)
	}
	fn sizes() -> Vec<usize> {
		vec![0, 1, 3, 8]
	}
	fn owned(&self) -> usize {
		self.len()
	}
}
impl Holder for [[ZTracked; 2]; 3] {
	const NAME: &'static str = "[[ZTracked; 2]; 3]";
	fn elems(_: usize) -> usize {
		6
	}
	fn input(cmds: &[u8]) -> Vec<u8> {
		cmds.to_vec()
	}
	fn sizes() -> Vec<usize> {
		vec![6]
	}
	fn owned(&self) -> usize {
		6
	}
}

impl Holder for Tracked {
	const NAME: &'static str = "Tracked";
	fn elems(_: usize) -> usize {
		1
	}
	fn input(cmds: &[u8]) -> Vec<u8> {
		cmds.to_vec()
	}
	fn sizes() -> Vec<usize> {
		vec![1]
	}
	fn owned(&self) -> usize {
		1
	}
}
wrap_holder!(Box, Tracked, "Box<Tracked>");
wrap_holder!(Rc, Tracked, "Rc<Tracked>");
wrap_holder!(Arc, Tracked, "Arc<Tracked>");
wrap_holder!(Box, [Tracked; 3], "Box<[Tracked; 3]>");
wrap_holder!(Box, [Tracked; 40], "Box<[Tracked; 40]>");
wrap_holder!(Rc, [Tracked; 3], "Rc<[Tracked; 3]>");
wrap_holder!(Rc, [Tracked; 8], "Rc<[Tracked; 8]>");
wrap_holder!(Arc, [Tracked; 3], "Arc<[Tracked; 3]>");
wrap_holder!(Arc, [Tracked; 40], "Arc<[Tracked; 40]>");
wrap_holder!(Box, Vec<Tracked>, "Box<Vec<Tracked>>");
wrap_holder!(Box, BTreeMap<u8, Tracked>, "Box<BTreeMap<u8, Tracked>>");
wrap_holder!(Box, Box<Tracked>, "Box<Box<Tracked>>");
wrap_holder!(Box, Box<[Tracked; 3]>, "Box<Box<[Tracked; 3]>>");
wrap_holder!(Rc, Box<[Tracked; 3]>, "Rc<Box<[Tracked; 3]>>");
wrap_holder!(Box, Box<Box<Tracked>>, "Box<Box<Box<Tracked>>>");
wrap_holder!(Arc, Box<Box<Tracked>>, "Arc<Box<Box<Tracked>>>");

impl Holder for Option<Tracked> {
	const NAME: &'static str = "Option<Tracked>";
	fn elems(_: usize) -> usize {
		1
	}
	fn input(cmds: &[u8]) -> Vec<u8> {
		let mut v = vec![1];
		v.extend_from_slice(cmds);
		v
	}
	fn sizes() -> Vec<usize> {
		vec![1]
	}
	fn owned(&self) -> usize {
		self.is_some() as usize
	}
}
impl Holder for Result<Tracked, [Tracked; 2]> {
	const NAME: &'static str = "Result<Tracked, [Tracked; 2]> (Err arm)";
	fn elems(_: usize) -> usize {
		2
	}
	fn input(cmds: &[u8]) -> Vec<u8> {
		let mut v = vec![1];
		v.extend_from_slice(cmds);
		v
	}
	fn sizes() -> Vec<usize> {
		vec![2]
	}
	fn owned(&self) -> usize {
		match self {
			Ok(_) => 1,
			Err(_) => 2,
		}
	}
}
impl Holder for (Tracked, Tracked, Tracked) {
	const NAME: &'static str = "(Tracked, Tracked, Tracked)";
	fn elems(_: usize) -> usize {
		3
	}
	fn input(cmds: &[u8]) -> Vec<u8> {
		cmds.to_vec()
	}
	fn sizes() -> Vec<usize> {
		vec![3]
	}
	fn owned(&self) -> usize {
		3
	}
}
impl Holder for (Vec<Tracked>, [Tracked; 2]) {
	const NAME: &'static str = "(Vec<Tracked>, [Tracked; 2])";
	fn elems(n: usize) -> usize {
		n
	}
	fn input(cmds: &[u8]) -> Vec<u8> {
		let k = cmds.len().saturating_sub(2);
		let mut v = compact(k);
		v.extend_from_slice(cmds);
		v
	}
	fn sizes() -> Vec<usize> {
		vec![2, 3, 5, 10]
	}
	fn owned(&self) -> usize {
		self.0.len() + 2
	}
}

// derived holders
#[derive(Decode, DecodeWithMemTracking)]
pub struct DStruct {
	pub a: Tracked,
	#[codec(skip)]
	pub skipped: Option<Box<u32>>,
	pub b: Vec<Tracked>,
	pub c: [Tracked; 2],
}
impl Holder for DStruct {
	const NAME: &'static str = "derived struct {Tracked, skip, Vec<Tracked>, [Tracked; 2]}";
	fn elems(n: usize) -> usize {
		n
	}
	fn input(cmds: &[u8]) -> Vec<u8> {
		// a, then a vector of n-3, then two
		let k = cmds.len() - 3;
		let mut v = vec![cmds[0]];
		v.extend(compact(k));
		v.extend_from_slice(&cmds[1..]);
		v
	}
	fn sizes() -> Vec<usize> {
		vec![3, 4, 6, 11]
	}
	fn owned(&self) -> usize {
		1 + self.b.len() + 2
	}
}
#[derive(Decode, DecodeWithMemTracking)]
pub enum DEnum {
	#[codec(index = 5)]
	A(Tracked, Tracked),
	B {
		x: Tracked,
		y: Box<Tracked>,
		z: Option<Tracked>,
	},
}
pub struct DEnumB(pub DEnum);
impl Decode for DEnumB {
	fn decode<I: parity_scale_codec::Input>(i: &mut I) -> Result<Self, parity_scale_codec::Error> {
		Ok(DEnumB(DEnum::decode(i)?))
	}
}
impl DecodeWithMemTracking for DEnumB {}
impl Holder for DEnum {
	const NAME: &'static str = "derived enum variant A(Tracked, Tracked)";
	fn elems(_: usize) -> usize {
		2
	}
	fn input(cmds: &[u8]) -> Vec<u8> {
		let mut v = vec![5];
		v.extend_from_slice(cmds);
		v
	}
	fn sizes() -> Vec<usize> {
		vec![2]
	}
	fn owned(&self) -> usize {
		match self {
			DEnum::A(..) => 2,
			DEnum::B { z, .. } => 2 + z.is_some() as usize,
		}
	}
}
impl Holder for DEnumB {
	const NAME: &'static str = "derived enum variant B{Tracked, Box<Tracked>, Option<Tracked>}";
	fn elems(_: usize) -> usize {
		3
	}
	fn input(cmds: &[u8]) -> Vec<u8> {
		vec![1, cmds[0], cmds[1], 1, cmds[2]]
	}
	fn sizes() -> Vec<usize> {
		vec![3]
	}
	fn owned(&self) -> usize {
		self.0.owned()
	}
}
#[derive(Decode, DecodeWithMemTracking)]
#[repr(transparent)]
pub struct Transp(pub [Tracked; 3]);
impl Holder for Transp {
	const NAME: &'static str = "repr(transparent) newtype of [Tracked; 3]";
	fn elems(_: usize) -> usize {
		3
	}
	fn input(cmds: &[u8]) -> Vec<u8> {
		cmds.to_vec()
	}
	fn sizes() -> Vec<usize> {
		vec![3]
	}
	fn owned(&self) -> usize {
		3
	}
}
wrap_holder!(Box, Transp, "Box<repr(transparent) newtype of [Tracked; 3]>");
/// A transparent newtype whose payload is *skipped*: decoding consumes nothing and must hand over one
/// default-constructed instance, also through the in-place paths (Box, arrays).
#[derive(Decode, DecodeWithMemTracking)]
#[repr(transparent)]
pub struct SkipT(#[codec(skip)] pub Tracked);
impl Holder for SkipT {
	const NAME: &'static str = "repr(transparent) newtype with a skipped Tracked";
	fn elems(_: usize) -> usize {
		0
	}
	fn input(_: &[u8]) -> Vec<u8> {
		vec![]
	}
	fn sizes() -> Vec<usize> {
		vec![1]
	}
	fn owned(&self) -> usize {
		1
	}
}
impl Holder for [SkipT; 3] {
	const NAME: &'static str = "[repr(transparent) newtype with a skipped Tracked; 3]";
	fn elems(_: usize) -> usize {
		0
	}
	fn input(_: &[u8]) -> Vec<u8> {
		vec![]
	}
	fn sizes() -> Vec<usize> {
		vec![3]
	}
	fn owned(&self) -> usize {
		3
	}
}
wrap_holder!(Box, SkipT, "Box<repr(transparent) newtype with a skipped Tracked>");
wrap_holder!(Rc, [SkipT; 3], "Rc<[repr(transparent) newtype with a skipped Tracked; 3]>");
/// ... next to a field that is decoded
#[derive(Decode, DecodeWithMemTracking)]
pub struct SkipNext(#[codec(skip)] pub Tracked, pub Tracked);
impl Holder for SkipNext {
	const NAME: &'static str = "struct (skipped Tracked, Tracked)";
	fn elems(_: usize) -> usize {
		1
	}
	fn input(cmds: &[u8]) -> Vec<u8> {
		cmds.to_vec()
	}
	fn sizes() -> Vec<usize> {
		vec![1]
	}
	fn owned(&self) -> usize {
		2
	}
}
wrap_holder!(Box, SkipNext, "Box<struct (skipped Tracked, Tracked)>");
#[derive(Decode, DecodeWithMemTracking)]
#[repr(transparent)]
pub struct Transp2 {
	pub inner: Box<[Tracked; 8]>,
	pub ph: std::marker::PhantomData<u8>,
}
impl Holder for Transp2 {
	const NAME: &'static str = "repr(transparent) {Box<[Tracked; 8]>, PhantomData}";
	fn elems(_: usize) -> usize {
		8
	}
	fn input(cmds: &[u8]) -> Vec<u8> {
		cmds.to_vec()
	}
	fn sizes() -> Vec<usize> {
		vec![8]
	}
	fn owned(&self) -> usize {
		8
	}
}

// nested one level inside Vec / array
pub struct VecOf<H>(pub Vec<H>);
impl<H: Holder> Decode for VecOf<H> {
	fn decode<I: parity_scale_codec::Input>(i: &mut I) -> Result<Self, parity_scale_codec::Error> {
		Ok(VecOf(Decode::decode(i)?))
	}
}
impl<H: Holder> DecodeWithMemTracking for VecOf<H> {}
macro_rules! vec_of {
	($h:ty, $per:expr, $name:expr) => {
		impl Holder for VecOf<$h> {
			const NAME: &'static str = $name;
			fn elems(n: usize) -> usize {
				n
			}
			fn input(cmds: &[u8]) -> Vec<u8> {
				let k = cmds.len() / $per;
				let mut v = compact(k);
				for c in cmds.chunks($per) {
					v.extend(<$h as Holder>::input(c));
				}
				v
			}
			fn sizes() -> Vec<usize> {
				vec![$per, 2 * $per, 3 * $per]
			}
			fn owned(&self) -> usize {
				self.0.iter().map(|h| h.owned()).sum()
			}
		}
	};
}
vec_of!([Tracked; 3], 3, "Vec<[Tracked; 3]>");
/// 960-byte items: 17 of them fill a 16 KiB preallocation chunk, so 18 and 35 outer items put the failing
/// position into the second and third chunk
pub struct Wide(pub [Tracked; 40]);
impl Decode for Wide {
	fn decode<I: parity_scale_codec::Input>(i: &mut I) -> Result<Self, parity_scale_codec::Error> {
		Ok(Wide(Decode::decode(i)?))
	}
}
impl DecodeWithMemTracking for Wide {}
impl Holder for Wide {
	const NAME: &'static str = "[Tracked; 40] item";
	fn elems(_: usize) -> usize {
		40
	}
	fn input(cmds: &[u8]) -> Vec<u8> {
		cmds.to_vec()
	}
	fn sizes() -> Vec<usize> {
		vec![40]
	}
	fn owned(&self) -> usize {
		40
	}
}
impl Holder for VecOf<Wide> {
	const NAME: &'static str = "Vec<[Tracked; 40]> spanning several preallocation chunks";
	fn elems(n: usize) -> usize {
		n
	}
	fn input(cmds: &[u8]) -> Vec<u8> {
		let mut v = compact(cmds.len() / 40);
		v.extend_from_slice(cmds);
		v
	}
	fn sizes() -> Vec<usize> {
		vec![40 * 18, 40 * 35]
	}
	fn owned(&self) -> usize {
		self.0.len() * 40
	}
}
vec_of!(Box<[Tracked; 3]>, 3, "Vec<Box<[Tracked; 3]>>");
vec_of!(Vec<Tracked>, 2, "Vec<Vec<Tracked>> (inner length 2)");
vec_of!(Box<Tracked>, 1, "Vec<Box<Tracked>>");
vec_of!(Transp, 3, "Vec<repr(transparent) newtype>");
impl Holder for [Box<[Tracked; 2]>; 3] {
	const NAME: &'static str = "[Box<[Tracked; 2]>; 3]";
	fn elems(_: usize) -> usize {
		6
	}
	fn input(cmds: &[u8]) -> Vec<u8> {
		cmds.to_vec()
	}
	fn sizes() -> Vec<usize> {
		vec![6]
	}
	fn owned(&self) -> usize {
		6
	}
}
impl Holder for [Vec<Tracked>; 2] {
	const NAME: &'static str = "[Vec<Tracked>; 2]";
	fn elems(n: usize) -> usize {
		n
	}
	fn input(cmds: &[u8]) -> Vec<u8> {
		let h = cmds.len() / 2;
		let mut v = compact(h);
		v.extend_from_slice(&cmds[..h]);
		v.extend(compact(cmds.len() - h));
		v.extend_from_slice(&cmds[h..]);
		v
	}
	fn sizes() -> Vec<usize> {
		vec![0, 1, 2, 5]
	}
	fn owned(&self) -> usize {
		self[0].len() + self[1].len()
	}
}

/// One execution: decode `H` from an input with `n` elements whose element `pos` carries `fault`.
/// Returns Err(detail) if the ledger shows a leak, a double drop or a wrong hand-over, or if heap
/// memory allocated during the call is still live after everything was dropped.
pub fn one<H: Holder>(n: usize, pos: usize, fault: Fault) -> Result<&'static str, String> {
	let total = H::elems(n);
	let mut cmds: Vec<u8> = (0..total).map(|i| (i % 100) as u8 + 1).collect();
	let container_fault = matches!(fault, Fault::ContainerDepth | Fault::ContainerMem);
	if fault != Fault::None && !container_fault {
		if pos >= total {
			return Ok("n/a");
		}
		match fault {
			Fault::Malformed => cmds[pos] = CMD_ERR,
			Fault::Panic => cmds[pos] = CMD_PANIC,
			Fault::DepthLimit => cmds[pos] = CMD_DEPTH,
			Fault::MemLimit => cmds[pos] = CMD_MEM,
			Fault::Exhausted => cmds[pos] = 0x7e, // marker: the input is cut right before it
			_ => {},
		}
	}
	let mut input = H::input(&cmds);
	if fault == Fault::Exhausted {
		let at = input.iter().position(|b| *b == 0x7e).expect("marker present");
		input.truncate(at);
	}
	// one unmeasured run first: anything the code under test sets up once (lazily initialised state) is
	// not a leak of this call
	{
		ledger_reset();
		let r = guarded(|| {
			let mut s = &input[..];
			match fault {
				Fault::DepthLimit => H::decode_with_depth_limit(16, &mut s),
				Fault::MemLimit => H::decode_with_mem_limit(&mut s, 1 << 40),
				Fault::ContainerDepth => H::decode_with_depth_limit(pos as u32, &mut s),
				Fault::ContainerMem => H::decode_with_mem_limit(&mut s, pos * 8),
				_ => H::decode(&mut s),
			}
		});
		if let Ok(Ok(v)) = r {
			// a value that claims more instances than were constructed must not be dropped by the harness
			if ledger_snapshot().2 != v.owned() as u64 {
				std::mem::forget(v);
			}
		}
	}
	ledger_reset();
	// everything that owns memory from the decode is created and dropped inside the measured region
	let (res, usage) = crate::alloc::measure(|| -> Result<&'static str, String> {
		let r = guarded(|| {
			let mut s = &input[..];
			match fault {
				Fault::DepthLimit => H::decode_with_depth_limit(16, &mut s),
				Fault::MemLimit => H::decode_with_mem_limit(&mut s, 1 << 40),
				Fault::ContainerDepth => H::decode_with_depth_limit(pos as u32, &mut s),
				Fault::ContainerMem => H::decode_with_mem_limit(&mut s, pos * 8),
				_ => H::decode(&mut s),
			}
		});
		let (constructed, dropped, live, errors) = ledger_snapshot();
		if !errors.is_empty() {
			return Err(format!("ledger: {}", errors.join("; ")));
		}
		match r {
			Ok(Ok(v)) => {
				if fault != Fault::None && !container_fault {
					return Err(format!("decode succeeded although element {} carries fault {}", pos, fault.name()));
				}
				let owned = v.owned() as u64;
				if live != owned || constructed != owned + dropped {
					// the value may contain instances that were never constructed: dropping it would be
					// undefined behaviour in the harness; leak it instead
					std::mem::forget(v);
					return Err(format!(
						"after a successful decode {} instances are live but the value owns {} (constructed {}, dropped {})",
						live, owned, constructed, dropped
					));
				}
				drop(v);
				let (c2, d2, live2, errors2) = ledger_snapshot();
				if !errors2.is_empty() {
					return Err(format!("ledger after dropping the value: {}", errors2.join("; ")));
				}
				if live2 != 0 || c2 != d2 {
					return Err(format!("{} instances leaked after dropping the decoded value", live2));
				}
				Ok("ok-handed-over")
			},
			Ok(Err(_)) => {
				if fault == Fault::None {
					return Err("decode of a valid input failed".into());
				}
				if live != 0 || constructed != dropped {
					return Err(format!(
						"decode failed at element {} ({}) but {} of {} constructed instances were not dropped",
						pos,
						fault.name(),
						live,
						constructed
					));
				}
				Ok("err-all-released")
			},
			Err(_) => {
				if fault != Fault::Panic {
					return Err(format!("decode panicked under fault {}", fault.name()));
				}
				if live != 0 || constructed != dropped {
					return Err(format!(
						"element decoder panicked at element {} but {} of {} constructed instances were not dropped",
						pos, live, constructed
					));
				}
				Ok("panic-all-released")
			},
		}
	});
	let class = res?;
	if usage.live_end != 0 {
		return Err(format!(
			"{} bytes of heap memory allocated during the call were never freed (fault {} at {}; outcome {})",
			usage.live_end,
			fault.name(),
			pos,
			class
		));
	}
	Ok(class)
}

fn run_holder<H: Holder>(acc: &mut Acc) {
	// warm up the panic machinery of this thread outside any measurement
	let _ = guarded(|| panic!("warm-up"));
	heartbeat(H::NAME);
	for n in H::sizes() {
		let total = H::elems(n);
		for fault in FAULTS {
			let positions: Vec<usize> = match fault {
				Fault::None => vec![0],
				// limits 0..=5 (depth) / 0..=total+4 words (memory): hit at each of the holder's own levels
				Fault::ContainerDepth => (0..=5).collect(),
				Fault::ContainerMem => (0..=total + 4).collect(),
				_ => (0..total).collect(),
			};
			for pos in positions {
				acc.evaluations += 1;
				acc.transitions += 1;
				match one::<H>(n, pos, fault) {
					Ok("n/a") => {},
					Ok(class) if matches!(fault, Fault::ContainerDepth | Fault::ContainerMem) => {
						acc.states += 1;
						acc.traces += 1;
						acc.nontrivial += 1;
						acc.outcome(&format!("{}:{}", fault.name(), class));
					},
					Ok(class) => {
						acc.states += 1;
						acc.traces += 1;
						if pos > 0 {
							acc.nontrivial += 1;
						}
						acc.outcome(&format!("{}:{}", fault.name(), class));
					},
					Err(detail) => acc.violate(Violation {
						property: "C10".into(),
						sub: "C10.fault".into(),
						key: format!("C10|{}|{}", H::NAME, fault.name()),
						detail: format!("{} with {} elements: {}", H::NAME, total, detail),
						case: json!({"sub": "C10.fault", "holder": H::NAME, "n": n, "pos": pos, "fault": fault.name()}),
					}),
				}
			}
		}
	}
	acc.add("holders", 1);
}

macro_rules! all_holders {
	($m:ident, $($a:expr),*) => {{
		$m!([Tracked; 0], $($a),*); $m!([Tracked; 1], $($a),*); $m!([Tracked; 2], $($a),*); $m!([Tracked; 3], $($a),*);
		$m!([Tracked; 8], $($a),*); $m!([Tracked; 40], $($a),*);
		$m!(Vec<Tracked>, $($a),*); $m!(VecDeque<Tracked>, $($a),*); $m!(LinkedList<Tracked>, $($a),*);
		$m!(BTreeMap<u8, Tracked>, $($a),*); $m!(DupMap, $($a),*);
		$m!(Tracked, $($a),*); $m!(Box<Tracked>, $($a),*); $m!(Rc<Tracked>, $($a),*); $m!(Arc<Tracked>, $($a),*);
		$m!(Box<[Tracked; 3]>, $($a),*); $m!(Box<[Tracked; 40]>, $($a),*); $m!(Rc<[Tracked; 3]>, $($a),*); $m!(Rc<[Tracked; 8]>, $($a),*);
		$m!(Arc<[Tracked; 3]>, $($a),*); $m!(Arc<[Tracked; 40]>, $($a),*);
		$m!(Box<Vec<Tracked>>, $($a),*); $m!(Box<BTreeMap<u8, Tracked>>, $($a),*); $m!(Box<Box<Tracked>>, $($a),*);
		$m!(Box<Box<[Tracked; 3]>>, $($a),*); $m!(Rc<Box<[Tracked; 3]>>, $($a),*);
		$m!(Box<Box<Box<Tracked>>>, $($a),*); $m!(Arc<Box<Box<Tracked>>>, $($a),*);
		$m!(Option<Tracked>, $($a),*); $m!(Result<Tracked, [Tracked; 2]>, $($a),*); $m!((Tracked, Tracked, Tracked), $($a),*);
		$m!((Vec<Tracked>, [Tracked; 2]), $($a),*);
		$m!(DStruct, $($a),*); $m!(DEnum, $($a),*); $m!(DEnumB, $($a),*); $m!(Transp, $($a),*); $m!(Box<Transp>, $($a),*); $m!(Transp2, $($a),*);
		$m!(VecOf<[Tracked; 3]>, $($a),*); $m!(VecOf<Box<[Tracked; 3]>>, $($a),*); $m!(VecOf<Vec<Tracked>>, $($a),*);
		$m!(VecOf<Box<Tracked>>, $($a),*); $m!(VecOf<Transp>, $($a),*); $m!(VecOf<Wide>, $($a),*);
		$m!([Box<[Tracked; 2]>; 3], $($a),*); $m!([Vec<Tracked>; 2], $($a),*);
		$m!(SkipT, $($a),*); $m!([SkipT; 3], $($a),*); $m!(Box<SkipT>, $($a),*); $m!(Rc<[SkipT; 3]>, $($a),*);
		$m!(SkipNext, $($a),*); $m!(Box<SkipNext>, $($a),*);
		$m!([ZTracked; 1], $($a),*); $m!([ZTracked; 3], $($a),*); $m!([ZTracked; 8], $($a),*); $m!(Box<[ZTracked; 3]>, $($a),*);
		$m!(Rc<[ZTracked; 3]>, $($a),*); $m!(Box<ZTracked>, $($a),*); $m!(Vec<ZTracked>, $($a),*); $m!([[ZTracked; 2]; 3], $($a),*);
	}};
}

/// Monitor: the same enumeration in a nightly AddressSanitizer + LeakSanitizer build of this binary
/// (without the type registry). A sanitizer report or a non-zero exit is a violation; a toolchain
/// problem is a cap note, never a verdict.
fn sanitizer_run(acc: &mut Acc) -> Option<String> {
	use std::process::Command;
	let root = verif_root();
	let target = format!("{}/target/asan", root);
	let build = Command::new("cargo")
		.args(["+nightly", "build", "--release", "--offline", "--target", "x86_64-unknown-linux-gnu", "-p", "pscv", "--no-default-features"])
		.current_dir(format!("{}/harness", root))
		.env("RUSTFLAGS", "-Zsanitizer=address --cfg parity_scale_codec_verif")
		.env("CARGO_TARGET_DIR", &target)
		.output();
	let build = match build {
		Ok(b) => b,
		Err(e) => return Some(format!("cannot run cargo +nightly: {}", e)),
	};
	if !build.status.success() {
		let err = String::from_utf8_lossy(&build.stderr);
		return Some(format!("sanitizer build failed: {}", err.lines().filter(|l| l.starts_with("error")).take(3).collect::<Vec<_>>().join(" | ")));
	}
	let scratch = format!("{}/target/asan-run", root);
	let _ = std::fs::create_dir_all(&scratch);
	let run = Command::new(format!("{}/x86_64-unknown-linux-gnu/release/pscv", target))
		.args(["--child", "C10", "--tier", "quick"])
		.env("VERIF_ROOT", &scratch)
		.env("ASAN_OPTIONS", "detect_leaks=1:halt_on_error=1")
		.output();
	let run = match run {
		Ok(r) => r,
		Err(e) => return Some(format!("cannot run the sanitizer build: {}", e)),
	};
	let stderr = String::from_utf8_lossy(&run.stderr).to_string();
	let stdout = String::from_utf8_lossy(&run.stdout).to_string();
	let _ = std::fs::remove_dir_all(&scratch);
	acc.evaluations += 1;
	acc.transitions += 3572;
	let report = stderr.contains("AddressSanitizer") || stderr.contains("LeakSanitizer");
	if run.status.success() && !report && !stdout.contains("VIOLATION") {
		acc.states += 1;
		acc.traces += 1;
		acc.nontrivial += 1;
		acc.outcome("sanitizer-clean");
	} else {
		let first = stderr.lines().find(|l| l.contains("ERROR: ") || l.contains("SUMMARY: ")).unwrap_or("").to_string();
		acc.violate(Violation {
			property: "C10".into(),
			sub: "C10.asan".into(),
			key: "C10|sanitizer".into(),
			detail: format!("the fault enumeration under AddressSanitizer/LeakSanitizer reported: {} (exit {:?})", first, run.status.code()),
			case: json!({"sub": "C10.asan"}),
		});
	}
	None
}

pub fn run(tier: Tier) -> Report {
	let mut rep = Report::new("C10", tier);
	let mut acc = Acc::default();
	macro_rules! go {
		($h:ty, $acc:expr) => {
			run_holder::<$h>($acc)
		};
	}
	all_holders!(go, &mut acc);
	acc.sample(json!({"holder": "Box<[Tracked; 40]>", "elements": 40, "failing_position": 17, "fault": "panic-in-element", "expected": "17 constructed, 17 dropped, 0 live, no double drop"}));
	rep.part(
		"fault enumeration",
		"every container of the instrumented element x size x every failing position 0..N x {input exhausted, malformed element, depth-limit error, mem-limit error, panic in the element decoder} + the all-succeed case + depth limits 0..=5 and memory limits 0..=N+4 words hit at the container's own levels: construction/drop ledger balanced and no heap byte allocated during the call left live",
		acc,
	);
	if tier.thorough() {
		let mut acc = Acc::default();
		if let Some(problem) = sanitizer_run(&mut acc) {
			rep.caps.push(format!("sanitizer monitor not run: {}", problem));
		} else {
			rep.part("sanitizer monitor", "the same fault enumeration in a nightly AddressSanitizer + LeakSanitizer build: no heap error, no leak", acc);
		}
	}
	rep.rule = "nested-loop enumeration of (container, N, failing position, fault kind); each case is one real decode call on a crafted input, observed through the construction/drop ledger of the element type \
		(live instances == those owned by the returned value; none after Err/panic; no id dropped twice; heap block of each instance intact). non-trivial = failing position > 0"
		.into();
	rep.bounds = json!({"sizes": SIZES, "fault_kinds": FAULTS.iter().map(|f| f.name()).collect::<Vec<_>>(), "nesting": "one level inside Vec / Box / array"});
	rep.assumptions = vec!["use-after-free that does not disturb the ledger or the owned heap block is only visible to the sanitizer run (thorough tier, when built)".into()];
	rep
}

pub fn replay(case: &Json) -> Option<String> {
	if case["sub"] == "C10.asan" {
		let mut acc = Acc::default();
		let _ = sanitizer_run(&mut acc);
		return acc.violations.first().map(|v| v.detail.clone());
	}
	let name = case["holder"].as_str().unwrap().to_string();
	let n = case["n"].as_u64().unwrap() as usize;
	let pos = case["pos"].as_u64().unwrap() as usize;
	let fault = Fault::from_name(case["fault"].as_str().unwrap());
	let mut out = None;
	macro_rules! go {
		($h:ty, $x:expr) => {
			if <$h as Holder>::NAME == name {
				out = one::<$h>(n, pos, fault).err();
			}
		};
	}
	all_holders!(go, ());
	out
}

//! C09 — memory requested while decoding is bounded by the input supplied.

use crate::{alloc, common::*};
use refmodel::{domain, enc_compact, ref_enc, SeqKind, Shape};
use serde_json::{json, Value as Json};
use std::io::Cursor;
use subjects::{inputs::NoLen, vt::VT};

/// One hostile position inside a type: bytes that lead the decoder to a container's count.
#[derive(Clone, Debug)]
pub struct Site {
	pub prefix: Vec<u8>,
	pub path: String,
	pub bits: bool,
	/// a valid minimal element encoding to use as payload (None = zeros only)
	pub elem: Option<Vec<u8>>,
	pub levels: usize,
	/// which decoder allocates at this site
	pub container: &'static str,
}

fn min_enc(shape: &Shape) -> Vec<u8> {
	let mut best: Option<Vec<u8>> = None;
	for v in domain::reduced(shape) {
		if let Ok(e) = ref_enc(shape, &v) {
			if best.as_ref().map_or(true, |b| e.len() < b.len()) {
				best = Some(e);
			}
		}
	}
	best.unwrap_or_default()
}

/// Walk the shape; for every container node emit the bytes that precede its count.
pub fn sites(shape: &Shape, prefix: Vec<u8>, path: String, levels: usize, out: &mut Vec<Site>, budget: usize) {
	if out.len() >= budget || levels > 6 {
		return;
	}
	match shape {
		Shape::Seq(_, e) => {
			let container = match shape {
				Shape::Seq(SeqKind::List, _) => "LinkedList",
				Shape::Seq(SeqKind::Set, _) => "BTreeSet",
				_ => "Vec-backed",
			};
			out.push(Site { prefix: prefix.clone(), path: format!("{}/seq", path), bits: false, elem: Some(min_enc(e)).filter(|x| !x.is_empty()), levels, container });
			// the same kind of container one level down (inside the first element)
			let mut p = prefix.clone();
			p.push(0x04);
			sites(e, p, format!("{}/seq[0]", path), levels + 1, out, budget);
		},
		Shape::Map(k, v) => {
			let mut el = min_enc(k);
			el.extend(min_enc(v));
			out.push(Site { prefix: prefix.clone(), path: format!("{}/map", path), bits: false, elem: Some(el).filter(|x| !x.is_empty()), levels, container: "BTreeMap" });
			let mut p = prefix.clone();
			p.push(0x04);
			sites(k, p.clone(), format!("{}/map.key", path), levels + 1, out, budget);
			p.extend(min_enc(k));
			sites(v, p, format!("{}/map.value", path), levels + 1, out, budget);
		},
		Shape::Str | Shape::Bytes => out.push(Site { prefix, path: format!("{}/bytes", path), bits: false, elem: Some(vec![0x61]), levels, container: "bytes" }),
		Shape::Bits { .. } => out.push(Site { prefix, path: format!("{}/bits", path), bits: true, elem: None, levels, container: "bits" }),
		Shape::Option(e) => {
			let mut p = prefix;
			p.push(1);
			sites(e, p, format!("{}/some", path), levels, out, budget);
		},
		Shape::Result(t, e) => {
			let mut p = prefix.clone();
			p.push(0);
			sites(t, p, format!("{}/ok", path), levels, out, budget);
			let mut p = prefix;
			p.push(1);
			sites(e, p, format!("{}/err", path), levels, out, budget);
		},
		Shape::Array(n, e) =>
			if *n > 0 {
				sites(e, prefix, format!("{}/[0]", path), levels, out, budget)
			},
		Shape::Wrap(_, e) => sites(e, prefix, format!("{}/wrap", path), levels, out, budget),
		Shape::Range(e) | Shape::RangeIncl(e) => sites(e, prefix, format!("{}/start", path), levels, out, budget),
		Shape::Tuple(es) => {
			let mut p = prefix;
			for (i, e) in es.iter().enumerate() {
				sites(e, p.clone(), format!("{}/.{}", path, i), levels, out, budget);
				p.extend(min_enc(e));
			}
		},
		Shape::Struct(fs) => {
			let mut p = prefix;
			for (i, f) in fs.iter().enumerate().filter(|(_, f)| !f.skip) {
				sites(&f.shape, p.clone(), format!("{}/.{}", path, i), levels, out, budget);
				p.extend(min_enc(&f.shape));
			}
		},
		Shape::Enum(vs) =>
			for (vi, v) in vs.iter().enumerate() {
				let Some(ix) = v.index else { continue };
				let mut p = prefix.clone();
				p.push(ix);
				for (i, f) in v.fields.iter().enumerate().filter(|(_, f)| !f.skip) {
					sites(&f.shape, p.clone(), format!("{}/v{}.{}", path, vi, i), levels, out, budget);
					p.extend(min_enc(&f.shape));
				}
			},
		_ => {},
	}
}

pub const COUNTS: [u64; 11] = [1000, 3000, 16384, (1 << 16) + 1, 1 << 20, 1 << 24, (1 << 30) - 1, 1 << 30, 1 << 31, (1u64 << 32) - 2, (1u64 << 32) - 1];
pub const BIT_COUNTS: [u64; 5] = [(1 << 16) + 1, 1 << 20, 1 << 24, 1 << 28, (1 << 29) - 1];
pub const KINDS: [&str; 4] = ["slice", "nolen", "ioreader", "from_bytes"];

pub fn hostile_input(site: &Site, count: u64, payload: usize, valid_elems: bool) -> Vec<u8> {
	let mut x = site.prefix.clone();
	enc_compact(count as u128, &mut x);
	match (&site.elem, valid_elems) {
		(Some(e), true) if !e.is_empty() => {
			while payload > 0 && x.len() < site.prefix.len() + 5 + payload {
				x.extend_from_slice(e);
			}
		},
		_ => x.resize(x.len() + payload, 0),
	}
	x
}

/// Decode `input` by `kind` and return (ok, peak live bytes, largest single request).
pub fn measure(vt: &VT, kind: &str, input: &[u8]) -> (bool, alloc::Usage) {
	match kind {
		"slice" => alloc::measure(|| (vt.probe)(input)),
		"nolen" => {
			let mut n = NoLen::new(input);
			alloc::measure(|| (vt.probe_dyn)(&mut n))
		},
		"ioreader" => {
			let mut c = Cursor::new(input);
			alloc::measure(|| (vt.probe_io)(&mut c))
		},
		_ => {
			let b = bytes::Bytes::from(input.to_vec());
			alloc::measure(|| (vt.probe_bytes)(b))
		},
	}
}

/// The absolute allowance: linear in the input with a generous constant, plus a fixed
/// preallocation allowance per nesting level. Count-driven allocation overshoots this by orders
/// of magnitude, element-size constants do not come near it.
pub fn allowance(input_len: usize, levels: usize) -> usize {
	256 * (input_len + 16) + (128 << 10) * (levels + 1)
}

pub fn payloads(chunk: usize, tier: Tier) -> Vec<usize> {
	if tier.thorough() {
		vec![0, 1, chunk - 1, chunk, chunk + 1, 2 * chunk + 1, 64 << 10]
	} else {
		vec![0, 1, chunk + 1, 64 << 10]
	}
}

/// All measurements for one type; one JSON line per violation on stdout, summary at the end.
pub fn type_cases(vt: &VT, tier: Tier, emit: &mut dyn FnMut(Json)) -> (u64, u64) {
	let shape = (vt.shape)();
	let mut ss = vec![];
	sites(&shape, vec![], String::new(), 0, &mut ss, 12);
	let mut cases = 0u64;
	let mut nontrivial = 0u64;
	for site in &ss {
		// zero-width elements consume no input, so the loop runs `count` times whatever is supplied:
		// CPU time is not memory, and 2^24 iterations show a per-element allocation just as well
		let counts: &[u64] = if site.bits {
			&BIT_COUNTS
		} else if site.elem.is_none() {
			&COUNTS[3..6]
		} else {
			&COUNTS
		};
		for kind in KINDS {
			for &p in &payloads(16 << 10, tier) {
				for valid in [false, true] {
					if valid && (site.elem.is_none() || p == 0) {
						continue;
					}
					let mut base: Option<usize> = None;
					for &c in counts {
						let input = hostile_input(site, c, p, valid);
						heartbeat(&format!("{} {} count={} payload={} kind={}", vt.name, site.path, c, p, kind));
						let (ok, u) = measure(vt, kind, &input);
						cases += 1;
						if p > 0 {
							nontrivial += 1;
						}
						let allow = allowance(input.len(), site.levels);
						let mut bad: Option<String> = None;
						if u.peak > allow {
							bad = Some(format!(
								"claimed count {} with {} input bytes: peak of live heap memory during decode = {} bytes (largest request {}), allowance {}",
								c,
								input.len(),
								u.peak,
								u.largest,
								allow
							));
						}
						// counts are only comparable with each other once they exceed what the payload can supply
						// (every non-zero-width element takes at least one byte); smaller counts are satisfiable
						// and are judged by the absolute allowance alone
						if (c as usize) <= p {
							// not comparable
						} else if let Some(b0) = base {
							// the fixed preallocation allowance may or may not be reached by the smallest count
							if bad.is_none() && u.peak > b0 + b0 / 4 + (128 << 10) * (site.levels + 1) {
								bad = Some(format!(
									"peak heap memory grows with the claimed count for the same {} input bytes: {} bytes at count {} vs {} at count {}",
									input.len(),
									u.peak,
									c,
									b0,
									counts[0]
								));
							}
						} else {
							base = Some(u.peak);
						}
						if let Some(detail) = bad {
							emit(json!({"violation": true, "type": vt.name, "site": site.path, "kind": kind, "count": c, "payload": p, "valid": valid,
								"detail": detail, "ok": ok, "peak": u.peak, "largest": u.largest,
								"zero_width_elements": site.elem.is_none() && !site.bits, "container": site.container}));
						}
					}
				}
			}
		}
	}
	(cases, nontrivial)
}

fn container_types(reg: &[VT]) -> Vec<&VT> {
	reg.iter()
		.filter(|v| {
			let mut ss = vec![];
			sites(&(v.shape)(), vec![], String::new(), 0, &mut ss, 1);
			!ss.is_empty()
		})
		.collect()
}

/// Worker: measures types `[from, to)` of the container-type list; prints JSON lines.
pub fn worker(reg: &[VT], args: &[String]) -> i32 {
	let from: usize = args[0].parse().unwrap();
	let to: usize = args[1].parse().unwrap();
	let tier = if args.get(2).map(|s| s.as_str()) == Some("thorough") { Tier::Thorough } else { Tier::Quick };
	let types = container_types(reg);
	for (i, vt) in types.iter().enumerate().skip(from).take(to.saturating_sub(from)) {
		println!("{}", json!({"start": i, "type": vt.name}));
		let (cases, nt) = type_cases(vt, tier, &mut |j| println!("{}", j));
		println!("{}", json!({"done": i, "cases": cases, "nontrivial": nt}));
	}
	0
}

pub fn key_for(ty: &str, zero_width: bool, container: &str) -> String {
	if zero_width {
		// one call site per container decoder, whatever the (zero-width) element type is
		format!("C09|{}|zero-width-elements-allocate-per-claimed-count", container)
	} else {
		format!("C09|{}|claimed-count-drives-allocation", ty)
	}
}

pub fn run(tier: Tier, reg: &[VT]) -> Report {
	let mut rep = Report::new("C09", tier);
	let types = container_types(reg);
	let all: Vec<usize> = if tier.thorough() {
		(0..types.len()).collect()
	} else {
		// quick: core types, unary containers and every derived definition with a container field
		(0..types.len()).filter(|i| types[*i].core || types[*i].class == "unary" || types[*i].class == "bigelem" || i % 7 == 0).collect()
	};
	// contiguous runs of indices per worker process; a dying worker is attributed and restarted
	let nworkers = threads();
	let per = all.len().div_ceil(nworkers).max(1);
	let chunks: Vec<Vec<usize>> = all.chunks(per).map(|c| c.to_vec()).collect();
	let tname = tier.name().to_string();
	let acc = par(&chunks, |chunk, acc| {
		let mut pos = 0usize;
		while pos < chunk.len() {
			// a worker handles a contiguous index range; indices in `chunk` may have gaps, so run
			// one type per call when gaps exist
			let (from, to) = (chunk[pos], chunk[pos] + 1);
			let (code, sig, out) = spawn_worker(&["c09".into(), from.to_string(), to.to_string(), tname.clone()]);
			let mut finished = false;
			for line in out.lines() {
				if let Some(rest) = line.strip_prefix("REFUSED ") {
					acc.notes.insert(format!("{}: a single request of {} bytes was refused by the 1 GiB guard", types[from].name, rest.trim()));
					continue;
				}
				let Ok(j) = serde_json::from_str::<Json>(line) else { continue };
				if j["done"].is_u64() {
					finished = true;
					acc.evaluations += j["cases"].as_u64().unwrap_or(0);
					acc.states += j["cases"].as_u64().unwrap_or(0);
					acc.traces += j["cases"].as_u64().unwrap_or(0);
					acc.transitions += j["cases"].as_u64().unwrap_or(0);
					acc.nontrivial += j["nontrivial"].as_u64().unwrap_or(0);
					acc.outcome("type-measured");
				}
				if j["violation"] == json!(true) {
					let ty = j["type"].as_str().unwrap_or("").to_string();
					acc.violate(Violation {
						property: "C09".into(),
						sub: "C09.alloc".into(),
						key: key_for(&ty, j["zero_width_elements"] == json!(true), j["container"].as_str().unwrap_or("")),
						detail: format!("{} [{} via {}]: {}", ty, j["site"].as_str().unwrap_or(""), j["kind"].as_str().unwrap_or(""), j["detail"].as_str().unwrap_or("")),
						case: json!({"sub": "C09.alloc", "type": ty, "site": j["site"], "kind": j["kind"], "count": j["count"], "payload": j["payload"], "valid": j["valid"]}),
					});
				}
			}
			if !finished {
				// the worker died (allocation abort / OOM guard): that is the violation
				let hb = std::fs::read_dir(format!("{}/target/hb/C09", verif_root()))
					.ok()
					.map(|rd| rd.flatten().filter_map(|e| std::fs::read_to_string(e.path()).ok()).filter(|s| s.starts_with(types[from].name)).collect::<Vec<_>>())
					.unwrap_or_default();
				acc.outcome("worker-died");
				acc.violate(Violation {
					property: "C09".into(),
					sub: "C09.death".into(),
					key: key_for(types[from].name, false, ""),
					detail: format!("decoding a hostile input for {} killed the process (exit {:?}, signal {:?}): memory exhaustion instead of an error; in flight: {:?}", types[from].name, code, sig, hb),
					case: json!({"sub": "C09.death", "type": types[from].name, "index": from}),
				});
			}
			pos += 1;
		}
	});
	rep.part(
		"hostile counts",
		"every container position (top level and nested) of every selected registry type x claimed counts {2^16+1 .. 2^32-1} x supplied payload {0, 1, chunk+-1, 64 KiB} of zeros / valid elements x {slice, unknown-length, IoReader, shared buffer}: peak live heap bytes (harness allocator) within the allowance and independent of the claimed count",
		acc,
	);
	rep.rule = "case = (type, container position, claimed count, payload length and kind, input kind), each decoded by the real code in a worker process under a counting global allocator; \
		oracle: peak <= 256*(input bytes+16) + 128 KiB per nesting level, and peak at count c <= 1.25 * peak at the smallest hostile count + 128 KiB per nesting level for the same payload; \
		any single request > 1 GiB is refused and recorded. non-trivial = payload > 0"
		.into();
	rep.bounds = json!({"types_measured": all.len(), "container_types": types.len(), "counts": COUNTS, "bit_counts": BIT_COUNTS, "sites_per_type_max": 12});
	rep.assumptions = vec![
		"CPU time is not memory: Vec<()> / BTreeSet<()> with a 2^32-1 count loop without allocating and are not violations".into(),
		"the allowance constant (256 bytes of heap per input byte) is generous by design: the check is about dependence on the claimed count, not about element-size constants".into(),
	];
	rep
}

pub fn replay(reg: &[VT], case: &Json) -> Option<String> {
	let types = container_types(reg);
	let ty = case["type"].as_str().unwrap();
	let idx = types.iter().position(|v| v.name == ty)?;
	let (code, sig, out) = spawn_worker(&["c09".into(), idx.to_string(), (idx + 1).to_string(), "thorough".into()]);
	let mut found = None;
	let mut finished = false;
	for line in out.lines() {
		let Ok(j) = serde_json::from_str::<Json>(line) else { continue };
		if j["done"].is_u64() {
			finished = true;
		}
		if j["violation"] == json!(true) && found.is_none() {
			found = Some(j["detail"].as_str().unwrap_or("").to_string());
		}
	}
	if !finished {
		return Some(format!("worker died (exit {:?}, signal {:?})", code, sig));
	}
	found
}

#!/bin/sh
# tools/verify_demo.sh <ID> <n> [demo command...]   (SEEDED_DIR selects the round)
# Confirms only the demonstration of a seeded change in a scratch worktree: fails with the change, passes
# without it. The default command enables the optional features the demos may need.
set -u
ID="$1"; N="$2"; shift 2
OUT=${SEEDED_DIR:-/tmp/seeded_out}/$ID
WT=/tmp/vt/demo_${ID}_$N
git -C /repo worktree remove --force "$WT" >/dev/null 2>&1
mkdir -p /tmp/vt
git -C /repo worktree add --detach "$WT" HEAD >/dev/null 2>&1 || exit 2
export CARGO_NET_OFFLINE=true CARGO_TARGET_DIR=$WT/target
cd "$WT"
run() {
  if [ $# -gt 0 ]; then "$@"; else cargo test --offline --features "derive bit-vec bytes generic-array max-encoded-len" --test seeded_demo; fi
}
if [ -f "$OUT/demo$N.rs" ]; then cp "$OUT/demo$N.rs" tests/seeded_demo.rs; fi
git apply "$OUT/patch$N.diff" || { echo "$ID-$N: patch does not apply"; exit 3; }
if run "$@" >"$OUT/demo_with$N.log" 2>&1; then W=passes; else W=fails; fi
git apply -R "$OUT/patch$N.diff"
if run "$@" >"$OUT/demo_without$N.log" 2>&1; then O=passes; else O=fails; fi
echo "$ID-$N: demo WITH change: $W; WITHOUT change: $O" | tee -a "$OUT/demo_verify$N.txt"
cd /; git -C /repo worktree remove --force "$WT" >/dev/null 2>&1; rm -rf "$WT"

//! The reference model replays byte vectors pinned by the repository's own tests and the
//! published SCALE examples, so that it is validated independently of the checks that use it.

use crate::*;

fn hex(s: &str) -> Vec<u8> {
	let s: String = s.chars().filter(|c| !c.is_whitespace()).collect();
	(0..s.len() / 2).map(|i| u8::from_str_radix(&s[2 * i..2 * i + 2], 16).unwrap()).collect()
}

fn rt(shape: &Shape, v: Value, bytes: &str) {
	let e = ref_enc(shape, &v).unwrap();
	assert_eq!(e, hex(bytes), "encoding of {:?}", v);
	let (d, n) = ref_dec(shape, &e).unwrap();
	assert_eq!(n, e.len());
	assert_eq!(shape.normalize(&d), shape.normalize(&v));
}

#[test]
fn compact_vectors() {
	// src/compact.rs compact_integers_encoded_as_expected & SCALE docs
	let c = Shape::Compact(128);
	rt(&c, Value::U(0), "00");
	rt(&c, Value::U(1), "04");
	rt(&c, Value::U(42), "a8");
	rt(&c, Value::U(63), "fc");
	rt(&c, Value::U(64), "0101");
	rt(&c, Value::U(69), "1501");
	rt(&c, Value::U(16383), "fdff");
	rt(&c, Value::U(16384), "02000100");
	rt(&c, Value::U(65535), "feff0300");
	rt(&c, Value::U(1073741823), "feffffff");
	rt(&c, Value::U(1073741824), "0300000040");
	rt(&c, Value::U((1 << 32) - 1), "03ffffffff");
	rt(&c, Value::U(1 << 32), "070000000001");
	rt(&c, Value::U(1 << 40), "0b000000000001");
	rt(&c, Value::U(1 << 48), "0f00000000000001");
	rt(&c, Value::U((1 << 56) - 1), "0fffffffffffffff");
	rt(&c, Value::U(1 << 56), "130000000000000001");
	rt(&c, Value::U(u64::MAX as u128), "13ffffffffffffffff");
	rt(&c, Value::U(100000000000000), "0b00407a10f35a");
	rt(&c, Value::U(u128::MAX), "33ffffffffffffffffffffffffffffffff");
}

#[test]
fn compact_rejects() {
	// non-minimal forms
	for (w, s) in [
		(32, "0100"),       // 0 in 2-byte mode
		(32, "fd00"),       // 63 in 2-byte mode
		(32, "02000000"),   // 0 in 4-byte mode
		(32, "feff0000"),   // 16383 in 4-byte mode
		(32, "03ffffff3f"), // 2^30-1 in big mode
		(64, "0700000000"), // wait: 5 payload bytes needed
		(64, "070000000000"),
		(64, "0b00000000ff00"),
		(8, "0104"),        // 256 does not fit u8
		(16, "02000400"),   // 65536 does not fit u16
		(32, "070000000001"),
		(64, "17000000000000000001"),
		(128, "37000000000000000000000000000000ff01"),
	] {
		assert!(ref_dec(&Shape::Compact(w), &hex(s)).is_err(), "{} {}", w, s);
	}
	assert_eq!(ref_dec(&Shape::Compact(8), &hex("fd03")).unwrap().0, Value::U(255));
	assert_eq!(ref_dec(&Shape::Compact(16), &hex("feff0300")).unwrap().0, Value::U(65535));
}

#[test]
fn basic_vectors() {
	rt(&Shape::UInt(16), Value::U(42), "2a00");
	rt(&Shape::SInt(8), Value::I(-1), "ff");
	rt(&Shape::SInt(32), Value::I(-2), "feffffff");
	rt(&Shape::UInt(32), Value::U(16777215), "ffffff00");
	rt(&Shape::Bool, Value::Bool(true), "01");
	rt(&Shape::Option(b(Shape::Bool)), Value::Some_(Box::new(Value::Bool(false))), "0100");
	rt(&Shape::OptionBool, Value::Some_(Box::new(Value::Bool(false))), "02");
	rt(&Shape::OptionBool, Value::Some_(Box::new(Value::Bool(true))), "01");
	rt(&Shape::Result(b(Shape::UInt(8)), b(Shape::Bool)), Value::Ok_(Box::new(Value::U(42))), "002a");
	rt(&Shape::Result(b(Shape::UInt(8)), b(Shape::Bool)), Value::Err_(Box::new(Value::Bool(false))), "0100");
	// src/codec.rs vec_of_i16_encoded_as_expected
	rt(
		&Shape::Seq(SeqKind::Vec, b(Shape::SInt(16))),
		Value::List([4, 8, 15, 16, 23, 42].iter().map(|x| Value::I(*x)).collect()),
		"18 04 00 08 00 0f 00 10 00 17 00 2a 00",
	);
	// vec_of_option_int_encoded_as_expected
	rt(
		&Shape::Seq(SeqKind::Vec, b(Shape::Option(b(Shape::SInt(8))))),
		Value::List(vec![Value::Some_(Box::new(Value::I(1))), Value::Some_(Box::new(Value::I(-1))), Value::None_]),
		"0c 01 01 01 ff 00",
	);
	// vec_of_string_encoded_as_expected
	rt(
		&Shape::Seq(SeqKind::Vec, b(Shape::Str)),
		Value::List(
			["Hamlet", "Война и мир", "三国演义", "أَلْف لَيْلَة وَلَيْلَة‎"].iter().map(|s| Value::Str(s.to_string())).collect(),
		),
		"10 18 48 61 6d 6c 65 74 50 d0 92 d0 be d0 b9 d0 bd d0 b0 20 d0 b8 20 d0 bc d0 b8 d1 80 30 e4 b8 89 e5 9b bd e6 bc 94 e4 b9 89 bc d8 a3 d9 8e d9 84 d9 92 d9 81 20 d9 84 d9 8e d9 8a d9 92 d9 84 d9 8e d8 a9 20 d9 88 d9 8e d9 84 d9 8e d9 8a d9 92 d9 84 d9 8e d8 a9 e2 80 8e",
	);
	rt(&Shape::Str, Value::Str("Hello world".into()), "2c 48 65 6c 6c 6f 20 77 6f 72 6c 64");
	// tuple / duration
	rt(&Shape::Tuple(vec![Shape::Compact(32), Shape::Bool]), Value::List(vec![Value::U(3), Value::Bool(false)]), "0c00");
	rt(&Shape::Duration, Value::List(vec![Value::U(1), Value::U(2)]), "0100000000000000 02000000");
	assert!(ref_dec(&Shape::Duration, &hex("0100000000000000 00ca9a3b")).is_err());
	assert!(ref_dec(&Shape::Duration, &hex("0100000000000000 ffc99a3b")).is_ok());
	// strict tags
	assert!(ref_dec(&Shape::Bool, &[2]).is_err());
	assert!(ref_dec(&Shape::Option(b(Shape::Bool)), &[2]).is_err());
	assert!(ref_dec(&Shape::OptionBool, &[3]).is_err());
	assert!(ref_dec(&Shape::NonZeroU(16), &[0, 0]).is_err());
	assert!(ref_dec(&Shape::Str, &hex("08 c3 28")).is_err());
	// count promising more than is present
	assert!(ref_dec(&Shape::Seq(SeqKind::Vec, b(Shape::UInt(8))), &hex("0c 01 02")).is_err());
}

#[test]
fn bit_vectors() {
	// src/bit_vec.rs bitvec_u8_encodes_as_expected: bitvec![u8, Msb0; 0,1,1,0,1,0... ]
	let s = Shape::Bits { store: 8, msb0: true };
	// 9 bits: 1 then 8 zeros... use hand-computed cases
	rt(&s, Value::Bits(vec![true]), "04 80");
	rt(&s, Value::Bits(vec![true, false, true, true, false, false, false, false, true]), "24 b0 80");
	let l = Shape::Bits { store: 8, msb0: false };
	rt(&l, Value::Bits(vec![true]), "04 01");
	rt(&l, Value::Bits(vec![true, false, true, true, false, false, false, false, true]), "24 0d 01");
	let l16 = Shape::Bits { store: 16, msb0: false };
	rt(&l16, Value::Bits(vec![true, false, true, true, false, false, false, false, true]), "24 0d 01");
	let m16 = Shape::Bits { store: 16, msb0: true };
	rt(&m16, Value::Bits(vec![true, false, true, true, false, false, false, false, true]), "24 80 b0");
	// padding bits are ignored on decode
	let (v, n) = ref_dec(&l, &hex("04 ff")).unwrap();
	assert_eq!((v, n), (Value::Bits(vec![true]), 2));
	// too many bits
	assert!(ref_dec(&l, &hex("03 00 00 00 20")).is_err());
}

#[test]
fn enum_struct() {
	let e = Shape::Enum(vec![
		Variant { index: Some(1), fields: vec![] },
		Variant { index: None, fields: vec![] },
		Variant { index: Some(7), fields: vec![Field { shape: Shape::UInt(16), skip: false }, Field { shape: Shape::UInt(8), skip: true }] },
	]);
	rt(&e, Value::Variant(0, vec![]), "01");
	rt(&e, Value::Variant(2, vec![Value::U(258), Value::U(9)]), "07 02 01");
	assert_eq!(ref_enc(&e, &Value::Variant(1, vec![])), Err(EncErr::SkippedVariant));
	assert!(ref_dec(&e, &[0]).is_err());
	assert!(ref_dec(&e, &[2]).is_err());
}

#[test]
fn side_models() {
	use crate::side::*;
	assert_eq!(variant_indices(&[IndexSrc::Implicit, IndexSrc::Skip, IndexSrc::Implicit]), vec![Some(0), None, Some(1)]);
	assert!(!enum_accepts(&[IndexSrc::Implicit, IndexSrc::Skip, IndexSrc::Attr(0)]));
	assert!(enum_accepts(&[IndexSrc::Implicit, IndexSrc::Skip, IndexSrc::Attr(1)]));
	assert!(enum_accepts(&[IndexSrc::Attr(255), IndexSrc::Implicit]));
	assert!(!enum_accepts(&[IndexSrc::Attr(256)]));
	assert!(enum_accepts(&[IndexSrc::Skip, IndexSrc::Discr(0)]));
	assert!(!enum_accepts(&[IndexSrc::Discr(1), IndexSrc::Implicit]));
	assert!(enum_accepts(&[IndexSrc::Both(3, 1), IndexSrc::Implicit]));
	let s = Shape::Seq(SeqKind::Vec, b(Shape::Seq(SeqKind::Vec, b(Shape::Bool))));
	assert_eq!(depth_all(&s, &Value::List(vec![Value::List(vec![Value::Bool(true)])])), 2);
	assert_eq!(depth_all(&s, &Value::List(vec![])), 1);
	assert_eq!(max_len(&Shape::Result(b(Shape::Compact(32)), b(Shape::UInt(8)))), Some(6));
}

pub mod c01;
pub mod c02;
pub mod c03;
pub mod c04;

//! Shared machinery: accumulators, parallel enumeration, violations/replays, known findings,
//! evidence files, JSON conversion of model values.

use refmodel::Value;
use serde_json::{json, Value as Json};
use std::{
	collections::{BTreeMap, BTreeSet, HashSet},
	hash::{Hash, Hasher},
	panic::{catch_unwind, AssertUnwindSafe},
	path::PathBuf,
	sync::{
		atomic::{AtomicBool, AtomicUsize, Ordering},
		Mutex,
	},
	time::Instant,
};
use subjects::vt::VT;

/// Root of the verification tree (`/verif`, or the snapshot a background run works in).
pub fn verif_root() -> String {
	std::env::var("VERIF_ROOT").unwrap_or_else(|_| "/verif".to_string())
}

#[derive(Clone, Copy, Debug, PartialEq, Eq)]
pub enum Tier {
	Quick,
	Thorough,
}

impl Tier {
	pub fn name(&self) -> &'static str {
		match self {
			Tier::Quick => "quick",
			Tier::Thorough => "thorough",
		}
	}
	pub fn thorough(&self) -> bool {
		*self == Tier::Thorough
	}
}

#[derive(Clone, Debug)]
pub struct Violation {
	pub property: String,
	/// sub-check that found it (also selects the replayer)
	pub sub: String,
	/// identifies the failing call site for known-finding matching (type + family, not each input)
	pub key: String,
	pub detail: String,
	/// everything needed to re-execute this one case without the explorer
	pub case: Json,
}

#[derive(Default)]
pub struct Acc {
	pub evaluations: u64,
	pub nontrivial: u64,
	pub transitions: u64,
	pub states: u64,
	pub traces: u64,
	pub outcomes: BTreeMap<String, u64>,
	pub samples: Vec<Json>,
	pub violations: Vec<Violation>,
	pub notes: BTreeSet<String>,
	pub distinct: HashSet<u64>,
	pub extra: BTreeMap<String, u64>,
}

impl Acc {
	pub fn merge(&mut self, o: Acc) {
		self.evaluations += o.evaluations;
		self.nontrivial += o.nontrivial;
		self.transitions += o.transitions;
		self.states += o.states;
		self.traces += o.traces;
		for (k, v) in o.outcomes {
			*self.outcomes.entry(k).or_insert(0) += v;
		}
		for s in o.samples {
			if self.samples.len() < 12 {
				self.samples.push(s);
			}
		}
		self.violations.extend(o.violations);
		self.notes.extend(o.notes);
		self.distinct.extend(o.distinct);
		for (k, v) in o.extra {
			*self.extra.entry(k).or_insert(0) += v;
		}
	}
	pub fn outcome(&mut self, k: &str) {
		*self.outcomes.entry(k.to_string()).or_insert(0) += 1;
	}
	pub fn add(&mut self, k: &str, n: u64) {
		*self.extra.entry(k.to_string()).or_insert(0) += n;
	}
	pub fn sample(&mut self, s: Json) {
		if self.samples.len() < 4 {
			self.samples.push(s);
		}
	}
	/// Record a violation; keeps at most a handful per key so that a systematic failure does not
	/// produce gigabytes of replays.
	pub fn violate(&mut self, v: Violation) {
		let same = self.violations.iter().filter(|x| x.key == v.key).count();
		if same < 3 && self.violations.len() < 200 {
			self.violations.push(v);
		}
		self.add("violations_seen", 1);
	}
	pub fn seen<T: Hash>(&mut self, x: &T) -> bool {
		let mut h = std::collections::hash_map::DefaultHasher::new();
		x.hash(&mut h);
		!self.distinct.insert(h.finish())
	}
}

pub fn hex(b: &[u8]) -> String {
	if b.len() > 96 {
		let mut s: String = b[..48].iter().map(|x| format!("{:02x}", x)).collect();
		s.push_str(&format!("..(+{} bytes)..", b.len() - 64));
		s.extend(b[b.len() - 16..].iter().map(|x| format!("{:02x}", x)));
		s
	} else {
		b.iter().map(|x| format!("{:02x}", x)).collect()
	}
}

pub fn hex_full(b: &[u8]) -> String {
	b.iter().map(|x| format!("{:02x}", x)).collect()
}

pub fn unhex(s: &str) -> Vec<u8> {
	(0..s.len() / 2).map(|i| u8::from_str_radix(&s[2 * i..2 * i + 2], 16).unwrap()).collect()
}

thread_local! {
	static IN_GUARD: std::cell::Cell<u32> = const { std::cell::Cell::new(0) };
}

/// Run `f` catching panics; `Err(msg)` if it panicked.
pub fn guarded<R>(f: impl FnOnce() -> R) -> Result<R, String> {
	IN_GUARD.with(|g| g.set(g.get() + 1));
	let r = catch_unwind(AssertUnwindSafe(f));
	IN_GUARD.with(|g| g.set(g.get() - 1));
	r.map_err(|e| {
		if let Some(s) = e.downcast_ref::<&str>() {
			s.to_string()
		} else if let Some(s) = e.downcast_ref::<String>() {
			s.clone()
		} else {
			"panic".to_string()
		}
	})
}

/// Panics of the subject inside `guarded` are expected observations and stay silent; a panic
/// anywhere else is a bug of the harness and is printed.
pub fn silence_panics() {
	let default = std::panic::take_hook();
	std::panic::set_hook(Box::new(move |info| {
		if IN_GUARD.with(|g| g.get()) == 0 {
			default(info);
		}
	}));
}

static HB_DIR: Mutex<Option<PathBuf>> = Mutex::new(None);

/// Heartbeat: names the unit a thread is working on, so that a process death (stack overflow,
/// allocation abort) can be attributed.
pub fn heartbeat(unit: &str) {
	let dir = HB_DIR.lock().unwrap().clone();
	if let Some(d) = dir {
		let tid = format!("{:?}", std::thread::current().id());
		let tid: String = tid.chars().filter(|c| c.is_ascii_digit()).collect();
		let _ = std::fs::write(d.join(format!("{}-{}.hb", std::process::id(), tid)), unit);
	}
}

pub fn heartbeat_init(id: &str) {
	let d = PathBuf::from(format!("{}/target/hb/{}", verif_root(), id));
	let _ = std::fs::remove_dir_all(&d);
	let _ = std::fs::create_dir_all(&d);
	*HB_DIR.lock().unwrap() = Some(d);
}

/// Like `heartbeat_init` for worker processes: keeps what other workers wrote.
pub fn heartbeat_init_keep(id: &str) {
	let d = PathBuf::from(format!("{}/target/hb/{}", verif_root(), id));
	let _ = std::fs::create_dir_all(&d);
	*HB_DIR.lock().unwrap() = Some(d);
}

pub fn threads() -> usize {
	std::env::var("VERIF_THREADS").ok().and_then(|s| s.parse().ok()).unwrap_or(16)
}

pub fn seed() -> u64 {
	std::env::var("VERIF_SEED").ok().and_then(|s| s.parse().ok()).unwrap_or(0)
}

/// Work-list parallelism: items are handed out in order from a shared index (the set of items
/// processed never depends on timing; only which thread takes which item does).
pub fn par<T: Sync>(items: &[T], f: impl Fn(&T, &mut Acc) + Sync) -> Acc {
	let next = AtomicUsize::new(0);
	let total = Mutex::new(Acc::default());
	let n = threads().min(items.len().max(1));
	let rot = if items.is_empty() { 0 } else { seed() as usize % items.len() };
	std::thread::scope(|s| {
		for _ in 0..n {
			s.spawn(|| {
				let mut acc = Acc::default();
				loop {
					let i = next.fetch_add(1, Ordering::Relaxed);
					if i >= items.len() {
						break;
					}
					let j = (i + rot) % items.len();
					f(&items[j], &mut acc);
				}
				total.lock().unwrap().merge(acc);
			});
		}
	});
	total.into_inner().unwrap()
}

// ------------------------------------------------------------------------------------------
// JSON for model values
// ------------------------------------------------------------------------------------------

pub fn value_to_json(v: &Value) -> Json {
	match v {
		Value::Unit => json!("unit"),
		Value::Bool(b) => json!({ "bool": b }),
		Value::U(x) => json!({"u": x.to_string()}),
		Value::I(x) => json!({"i": x.to_string()}),
		Value::F32(x) => json!({ "f32": x }),
		Value::F64(x) => json!({"f64": x.to_string()}),
		Value::None_ => json!("none"),
		Value::Some_(x) => json!({"some": value_to_json(x)}),
		Value::Ok_(x) => json!({"ok": value_to_json(x)}),
		Value::Err_(x) => json!({"err": value_to_json(x)}),
		Value::List(xs) => json!({"list": xs.iter().map(value_to_json).collect::<Vec<_>>()}),
		Value::Rep(n) => json!({ "rep": n }),
		Value::Map(xs) => json!({"map": xs.iter().map(|(k, v)| json!([value_to_json(k), value_to_json(v)])).collect::<Vec<_>>()}),
		Value::Str(s) => json!({ "str": s }),
		Value::Bytes(b) => json!({"bytes": hex_full(b)}),
		Value::Bits(b) => json!({"bits": b.iter().map(|x| if *x { '1' } else { '0' }).collect::<String>()}),
		Value::Variant(i, xs) => json!({"variant": i, "fields": xs.iter().map(value_to_json).collect::<Vec<_>>()}),
	}
}

pub fn value_from_json(j: &Json) -> Value {
	if let Some(s) = j.as_str() {
		return match s {
			"unit" => Value::Unit,
			"none" => Value::None_,
			_ => panic!("bad value json {}", j),
		};
	}
	let o = j.as_object().expect("value json object");
	let (k, v) = o.iter().find(|(k, _)| *k != "fields").expect("non-empty");
	let list = |v: &Json| v.as_array().unwrap().iter().map(value_from_json).collect::<Vec<_>>();
	match k.as_str() {
		"bool" => Value::Bool(v.as_bool().unwrap()),
		"u" => Value::U(v.as_str().unwrap().parse().unwrap()),
		"i" => Value::I(v.as_str().unwrap().parse().unwrap()),
		"f32" => Value::F32(v.as_u64().unwrap() as u32),
		"f64" => Value::F64(v.as_str().unwrap().parse().unwrap()),
		"some" => Value::Some_(Box::new(value_from_json(v))),
		"ok" => Value::Ok_(Box::new(value_from_json(v))),
		"err" => Value::Err_(Box::new(value_from_json(v))),
		"list" => Value::List(list(v)),
		"rep" => Value::Rep(v.as_u64().unwrap()),
		"map" => Value::Map(
			v.as_array()
				.unwrap()
				.iter()
				.map(|p| (value_from_json(&p[0]), value_from_json(&p[1])))
				.collect(),
		),
		"str" => Value::Str(v.as_str().unwrap().to_string()),
		"bytes" => Value::Bytes(unhex(v.as_str().unwrap())),
		"bits" => Value::Bits(v.as_str().unwrap().chars().map(|c| c == '1').collect()),
		"variant" => Value::Variant(v.as_u64().unwrap() as usize, list(&o["fields"])),
		_ => panic!("bad value json {}", j),
	}
}

/// Short human-readable rendering for samples.
pub fn value_short(v: &Value) -> String {
	let s = format!("{:?}", v);
	if s.len() > 160 {
		format!("{}…", &s[..160])
	} else {
		s
	}
}

// ------------------------------------------------------------------------------------------
// Known findings, replays, evidence
// ------------------------------------------------------------------------------------------

#[derive(Clone, Debug)]
pub struct Finding {
	pub property: String,
	pub status: String,
	pub key: String,
	pub what: String,
}

pub fn load_findings() -> Vec<Finding> {
	let p = format!("{}/known_findings.json", verif_root());
	let Ok(s) = std::fs::read_to_string(&p) else { return vec![] };
	let j: Json = serde_json::from_str(&s).expect("known_findings.json parses");
	j["findings"]
		.as_array()
		.map(|a| {
			a.iter()
				.map(|f| Finding {
					property: f["property"].as_str().unwrap_or("").to_string(),
					status: f["status"].as_str().unwrap_or("").to_string(),
					key: f["key"].as_str().unwrap_or("").to_string(),
					what: f["what"].as_str().unwrap_or("").to_string(),
				})
				.collect()
		})
		.unwrap_or_default()
}

fn digest(s: &str) -> String {
	let mut h = std::collections::hash_map::DefaultHasher::new();
	s.hash(&mut h);
	format!("{:016x}", h.finish())
}

pub struct Report {
	pub id: String,
	pub tier: Tier,
	pub start: Instant,
	pub acc: Acc,
	pub rule: String,
	pub bounds: Json,
	pub exhaustive: bool,
	pub caps: Vec<String>,
	pub assumptions: Vec<String>,
	pub parts: Vec<Json>,
}

impl Report {
	pub fn new(id: &str, tier: Tier) -> Self {
		Report {
			id: id.to_string(),
			tier,
			start: Instant::now(),
			acc: Acc::default(),
			rule: String::new(),
			bounds: json!({}),
			exhaustive: true,
			caps: vec![],
			assumptions: vec![],
			parts: vec![],
		}
	}

	/// Merge the result of one sub-check and remember its own counts.
	pub fn part(&mut self, name: &str, what: &str, acc: Acc) {
		self.parts.push(json!({
			"part": name,
			"what": what,
			"evaluations": acc.evaluations,
			"distinct_nontrivial": acc.nontrivial,
			"transitions": acc.transitions,
			"states": acc.states,
			"traces": acc.traces,
			"distinct_outcomes": acc.outcomes.len(),
			"outcomes": acc.outcomes.iter().take(24).map(|(k, v)| json!([k, v])).collect::<Vec<_>>(),
			"extra": acc.extra,
			"violations": acc.violations.len(),
		}));
		eprintln!(
			"[{}] part {}: evaluations={} nontrivial={} states={} transitions={} outcomes={} violations={} ({:.1}s)",
			self.id,
			name,
			acc.evaluations,
			acc.nontrivial,
			acc.states,
			acc.transitions,
			acc.outcomes.len(),
			acc.violations.len(),
			self.start.elapsed().as_secs_f64()
		);
		self.acc.merge(acc);
	}

	/// Write replays, print VIOLATION / KNOWN-FINDING lines, write the evidence file; returns the
	/// process exit code.
	pub fn finish(mut self) -> i32 {
		let findings = load_findings();
		let mut unknown = 0;
		let mut printed_known: BTreeSet<String> = BTreeSet::new();
		let mut printed_viol: BTreeSet<String> = BTreeSet::new();
		let viol = std::mem::take(&mut self.acc.violations);
		for v in &viol {
			let known = findings.iter().find(|f| f.status == "open" && f.property == v.property && f.key == v.key);
			if let Some(f) = known {
				if printed_known.insert(f.key.clone()) {
					println!("KNOWN-FINDING: property={} {} [{}]", v.property, f.what, f.key);
				}
				continue;
			}
			unknown += 1;
			if !printed_viol.insert(format!("{}{}", v.key, v.detail)) {
				continue;
			}
			let body = json!({
				"property": v.property, "sub": v.sub, "key": v.key, "detail": v.detail, "case": v.case,
			});
			let text = serde_json::to_string_pretty(&body).unwrap();
			let dir = format!("{}/replays/{}", verif_root(), v.property);
			let _ = std::fs::create_dir_all(&dir);
			let path = format!("{}/{}.json", dir, digest(&text));
			let _ = std::fs::write(&path, &text);
			eprintln!("[{}] violation key={} detail={}", self.id, v.key, v.detail);
			println!("VIOLATION property={} replay={}", v.property, path);
		}
		let wall = self.start.elapsed().as_secs_f64();
		let a = &self.acc;
		let mut samples = a.samples.clone();
		if samples.is_empty() {
			samples.push(json!("(no sample recorded)"));
		}
		let ev = json!({
			"property_id": self.id,
			"tier": self.tier.name(),
			"seed": seed(),
			"level": "model_checking",
			"coverage": {
				"states": a.states.max(1),
				"transitions": a.transitions.max(1),
				"traces_validated_against_impl": a.traces,
				"evaluations": a.evaluations.max(1),
				"distinct_nontrivial": a.nontrivial,
				"rule": self.rule,
				"samples": samples,
				"exhaustive": self.exhaustive && self.caps.is_empty(),
				"bounds": self.bounds,
				"caps_hit": self.caps,
				"distinct_outcomes": a.outcomes.len(),
				"outcomes": a.outcomes.iter().take(40).map(|(k, v)| json!([k, v])).collect::<Vec<_>>(),
				"parts": self.parts,
				"notes": a.notes.iter().collect::<Vec<_>>(),
				"extra": a.extra,
				"known_findings_reported": printed_known.iter().collect::<Vec<_>>(),
			},
			"assumptions": self.assumptions,
			"wall_s": wall,
			"violations": unknown,
		});
		let dir = format!("{}/evidence", verif_root());
		let _ = std::fs::create_dir_all(&dir);
		std::fs::write(format!("{}/{}.json", dir, self.id), serde_json::to_string_pretty(&ev).unwrap())
			.expect("write evidence");
		eprintln!(
			"[{}] {} tier: states={} transitions={} traces={} outcomes={} violations={} known={} wall={:.1}s",
			self.id,
			self.tier.name(),
			a.states,
			a.transitions,
			a.traces,
			a.outcomes.len(),
			unknown,
			printed_known.len(),
			wall
		);
		if unknown > 0 {
			1
		} else {
			0
		}
	}
}

pub static STOP: AtomicBool = AtomicBool::new(false);

/// Registry lookup by type name.
pub fn find_vt<'a>(reg: &'a [VT], name: &str) -> &'a VT {
	reg.iter().find(|v| v.name == name).unwrap_or_else(|| panic!("type {} not in registry", name))
}

/// Outcome class of a decode result, for the "distinct outcomes" statistic.
pub fn outcome_class<T>(r: &Result<T, String>) -> String {
	match r {
		Ok(_) => "ok".to_string(),
		Err(e) => {
			let e: String = e.chars().take(48).collect();
			format!("err:{}", e)
		},
	}
}

/// All registered types in generator order: built-in type terms (six generated crates, so that
/// their monomorphisation compiles in parallel) plus the derived corpus.
pub fn registry() -> Vec<VT> {
	#[allow(unused_mut)]
	let mut out: Vec<VT> = vec![];
	#[cfg(feature = "builtin")]
	{
		let mut v: Vec<(usize, VT)> = vec![];
		v.extend(reg0::types());
		v.extend(reg1::types());
		v.extend(reg2::types());
		v.extend(reg3::types());
		v.extend(reg4::types());
		v.extend(reg5::types());
		v.sort_by_key(|(i, _)| *i);
		out.extend(v.into_iter().map(|(_, t)| t));
	}
	out.extend(subjects::registry::derived());
	{
		// each corpus crate is its own cargo feature: if a change to the derive macros makes some of the
		// (valid) definitions uncompilable, `check` builds with the crates that still compile
		#[allow(unused_mut)]
		let mut d: Vec<(usize, VT)> = vec![];
		#[cfg(feature = "regd0")]
		d.extend(regd0::types());
		#[cfg(feature = "regd1")]
		d.extend(regd1::types());
		#[cfg(feature = "regd2")]
		d.extend(regd2::types());
		#[cfg(feature = "regd3")]
		d.extend(regd3::types());
		#[cfg(feature = "regd4")]
		d.extend(regd4::types());
		#[cfg(feature = "regd5")]
		d.extend(regd5::types());
		d.sort_by_key(|(i, _)| *i);
		out.extend(d.into_iter().map(|(_, t)| t));
	}
	#[cfg(feature = "xcorpus")]
	{
		let mut d: Vec<(usize, VT)> = vec![];
		d.extend(regx0::types());
		d.extend(regx1::types());
		d.extend(regx2::types());
		d.extend(regx3::types());
		d.extend(regx4::types());
		d.extend(regx5::types());
		d.extend(regx6::types());
		d.extend(regx7::types());
		d.sort_by_key(|(i, _)| *i);
		out.extend(d.into_iter().map(|(_, t)| t));
	}
	out
}

/// If the generated corpus of *valid* definitions did not compile against the current tree, the
/// `check` script builds without it and names the build log here: (definition, error) pairs.
pub fn corpus_rejections() -> Vec<(String, String)> {
	let Ok(log) = std::env::var("VERIF_CORPUS_BUILD_LOG") else { return vec![] };
	let Ok(text) = std::fs::read_to_string(&log) else { return vec![("(build log unreadable)".into(), log)] };
	let mut out = vec![];
	let lines: Vec<&str> = text.lines().collect();
	for (i, l) in lines.iter().enumerate() {
		if !l.starts_with("error") {
			continue;
		}
		// `  --> regd3/src/lib.rs:729:10`
		let loc = lines[i + 1..].iter().take(6).find(|x| x.trim_start().starts_with("-->") && x.contains("regd"));
		let Some(loc) = loc else { continue };
		let loc = loc.trim_start().trim_start_matches("-->").trim();
		let mut parts = loc.split(':');
		let (Some(file), Some(line)) = (parts.next(), parts.next()) else { continue };
		let src = std::fs::read_to_string(format!("{}/harness/{}", verif_root(), file)).unwrap_or_default();
		let n: usize = line.parse().unwrap_or(0);
		// the item is the nearest `pub struct` / `pub enum` line at or above the reported line
		let def = src.lines().take(n).collect::<Vec<_>>().into_iter().rev().find(|x| x.starts_with("pub struct") || x.starts_with("pub enum")).unwrap_or("").to_string();
		out.push((def, l.to_string()));
		if out.len() >= 8 {
			break;
		}
	}
	if out.is_empty() {
		out.push(("(no definition identified)".into(), lines.iter().find(|l| l.starts_with("error")).unwrap_or(&"").to_string()));
	}
	out
}

/// Run a worker sub-process of this binary (`pscv --worker <args>`); returns (exit code, signal,
/// stdout). Used where the subject may kill the process (stack overflow, allocation abort).
pub fn spawn_worker(args: &[String]) -> (Option<i32>, Option<i32>, String) {
	use std::os::unix::process::ExitStatusExt;
	let exe = std::env::current_exe().expect("own path");
	// coreutils `timeout` bounds a worker that does not come back (it is then killed like any
	// other dying worker and attributed by the caller)
	let limit = std::env::var("VERIF_WORKER_TIMEOUT_S").unwrap_or_else(|_| "1800".to_string());
	let out = std::process::Command::new("timeout")
		.arg("-s")
		.arg("KILL")
		.arg(limit)
		.arg(exe)
		.arg("--worker")
		.args(args)
		.stderr(std::process::Stdio::null())
		.output()
		.expect("spawn worker");
	(out.status.code(), out.status.signal(), String::from_utf8_lossy(&out.stdout).to_string())
}

//! C07 — all encoding entry points and bulk fast paths agree.

use crate::{
	checks::c02::{sweep_lens, SweepElem},
	common::*,
};
use parity_scale_codec::{Decode, Encode};
use refmodel::{domain, ref_enc, Shape, Value};
use serde_json::{json, Value as Json};
use std::collections::VecDeque;
use subjects::{
	drivers::Twin,
	inputs::{ShortWriter, WriteChoice},
	vt::VT,
};

/// The entry points agree among themselves (and `encoded_size` with the length).
pub fn entry_points(vt: &VT, shape: &Shape, v: &Value) -> Result<usize, String> {
	if ref_enc(shape, v).is_err() {
		return Ok(0);
	}
	let e = guarded(|| (vt.encode_all)(v)).map_err(|p| format!("an encode entry point panicked: {}", p))?;
	for (name, got) in [
		("encode_to(Vec)", &e.encode_to_vec),
		("encode_to(dyn Output)", &e.encode_to_dyn),
		("encode_to(io::Write)", &e.encode_to_io),
		("using_encoded", &e.using_encoded),
	] {
		if *got != e.encode {
			return Err(format!("{} yields {} but encode() yields {}", name, hex(got), hex(&e.encode)));
		}
	}
	if e.encoded_size != e.encode.len() {
		return Err(format!("encoded_size() = {} but encode() has {} bytes", e.encoded_size, e.encode.len()));
	}
	let (a, b) = guarded(|| (vt.encode_twice)(v)).map_err(|p| format!("encode panicked: {}", p))?;
	if a != b {
		return Err("encoding the same value twice yields different bytes".into());
	}
	Ok(e.encode.len())
}

/// Deviation-bounded exploration of short-write schedules of an `io::Write` sink.
pub fn short_writes(vt: &VT, shape: &Shape, v: &Value, bound: usize) -> Result<u64, String> {
	if ref_enc(shape, v).is_err() {
		return Ok(0);
	}
	let want = guarded(|| (vt.encode)(v)).map_err(|p| format!("encode panicked: {}", p))?;
	// bound 0: the default schedule; records the number of choice points
	let run = |sched: &[(usize, WriteChoice)]| -> Result<(Vec<u8>, usize), String> {
		let mut w = ShortWriter::new(sched);
		guarded(|| (vt.encode_to_write)(v, &mut w)).map_err(|p| format!("encode_to(io::Write) panicked under schedule {:?}: {}", sched, p))?;
		Ok((w.out, w.calls))
	};
	let (out, calls) = run(&[])?;
	if out != want {
		return Err(format!("io::Write sink received {} but encode() yields {}", hex(&out), hex(&want)));
	}
	let mut runs = 1u64;
	let choices = [WriteChoice::One, WriteChoice::Half, WriteChoice::Interrupted];
	let points = calls.min(24);
	if bound >= 1 {
		for i in 0..points {
			for c in choices {
				let (out, _) = run(&[(i, c)])?;
				runs += 1;
				if out != want {
					return Err(format!("under write schedule [{}:{:?}] the sink received {} instead of {}", i, c, hex(&out), hex(&want)));
				}
			}
		}
	}
	if bound >= 2 {
		// a deviation inserts calls, so the second deviation may land on a retry of the first
		for i in 0..points.min(10) {
			for j in i + 1..(points + 2).min(12) {
				for c in choices {
					for d in choices {
						let (out, _) = run(&[(i, c), (j, d)])?;
						runs += 1;
						if out != want {
							return Err(format!("under write schedule [{}:{:?}, {}:{:?}] the sink received {}", i, c, j, d, hex(&out)));
						}
					}
				}
			}
		}
	}
	Ok(runs)
}

// ---- bulk vs element-wise -------------------------------------------------------------------

fn same_vec<T: SweepElem>(a: &[T], b: &[Twin<T>]) -> bool {
	a.len() == b.len() && a.iter().zip(b).all(|(x, y)| x.same(&y.0))
}

/// Encode: slice / Vec / VecDeque (wrapped at `split`) of T vs Vec<Twin<T>>; decode both ways.
fn bulk_one<T: SweepElem>(name: &str, data: &[T], split: usize) -> Result<(), String> {
	let v: Vec<T> = data.to_vec();
	let tw: Vec<Twin<T>> = data.iter().cloned().map(Twin).collect();
	let want = guarded(|| tw.encode()).map_err(|p| format!("element-wise encode panicked: {}", p))?;
	let got = guarded(|| v.encode()).map_err(|p| format!("bulk encode panicked: {}", p))?;
	if got != want {
		return Err(format!("Vec<{}> of {} elements: bulk encoding differs from the element-wise twin", name, data.len()));
	}
	let got = guarded(|| (&v[..]).encode()).map_err(|p| format!("slice encode panicked: {}", p))?;
	if got != want {
		return Err(format!("[{}] of {} elements: bulk encoding differs from the element-wise twin", name, data.len()));
	}
	// a deque whose ring buffer wraps after `split` elements
	let mut dq: VecDeque<T> = VecDeque::with_capacity(data.len());
	for x in data[split..].iter() {
		dq.push_back(x.clone());
	}
	// the head part is pushed at the front and therefore lands at the physical end of the buffer
	for x in data[..split].iter().rev() {
		dq.push_front(x.clone());
	}
	if split > 0 && split < data.len() && dq.as_slices().0.len() != split {
		return Err(format!("harness: deque of {} elements did not wrap at {} (machinery)", data.len(), split));
	}
	let got = guarded(|| dq.encode()).map_err(|p| format!("deque encode panicked: {}", p))?;
	if got != want {
		return Err(format!("VecDeque<{}> of {} elements (split {}): encoding differs from the element-wise twin", name, data.len(), split));
	}
	// decode: valid, truncated, with trailing bytes
	let mut inputs: Vec<Vec<u8>> = vec![want.clone()];
	let mut t = want.clone();
	t.extend_from_slice(&[0xff, 0x00]);
	inputs.push(t);
	let cuts: Vec<usize> = if want.len() <= 40 { (0..want.len()).collect() } else { vec![0, 1, 2, 3, want.len() / 2, want.len() - 2, want.len() - 1] };
	for c in cuts {
		inputs.push(want[..c].to_vec());
	}
	for inp in &inputs {
		let mut a = &inp[..];
		let mut b = &inp[..];
		let ra = guarded(|| Vec::<T>::decode(&mut a)).map_err(|p| format!("bulk decode panicked: {}", p))?;
		let rb = guarded(|| Vec::<Twin<T>>::decode(&mut b)).map_err(|p| format!("element-wise decode panicked: {}", p))?;
		match (ra, rb) {
			(Ok(x), Ok(y)) => {
				if !same_vec(&x, &y) {
					return Err(format!("Vec<{}>: bulk decode of {} bytes yields different elements than element-wise decode", name, inp.len()));
				}
				if a.len() != b.len() {
					return Err(format!("Vec<{}>: bulk decode consumes {} bytes, element-wise {}", name, inp.len() - a.len(), inp.len() - b.len()));
				}
			},
			(Err(_), Err(_)) => {},
			(Ok(_), Err(e)) => return Err(format!("Vec<{}>: bulk decode accepts {} bytes that element-wise decode rejects ({})", name, inp.len(), e)),
			(Err(e), Ok(_)) => return Err(format!("Vec<{}>: bulk decode rejects ({}) {} bytes that element-wise decode accepts", name, e, inp.len())),
		}
		let mut a = &inp[..];
		let mut b = &inp[..];
		let ra = guarded(|| VecDeque::<T>::decode(&mut a)).map_err(|p| format!("deque decode panicked: {}", p))?;
		let rb = guarded(|| VecDeque::<Twin<T>>::decode(&mut b)).map_err(|p| format!("deque twin decode panicked: {}", p))?;
		match (ra, rb) {
			(Ok(x), Ok(y)) => {
				let (x, y): (Vec<T>, Vec<Twin<T>>) = (x.into(), y.into());
				if !same_vec(&x, &y) || a.len() != b.len() {
					return Err(format!("VecDeque<{}>: bulk and element-wise decode disagree on {} bytes", name, inp.len()));
				}
			},
			(Err(_), Err(_)) => {},
			_ => return Err(format!("VecDeque<{}>: bulk and element-wise decode disagree on accept/reject of {} bytes", name, inp.len())),
		}
	}
	Ok(())
}

fn array_one<T: SweepElem, const N: usize>(name: &str) -> Result<(), String> {
	let arr: [T; N] = std::array::from_fn(T::nth);
	let tw: [Twin<T>; N] = std::array::from_fn(|i| Twin(T::nth(i)));
	let want = guarded(|| tw.encode()).map_err(|p| format!("element-wise array encode panicked: {}", p))?;
	let got = guarded(|| arr.encode()).map_err(|p| format!("bulk array encode panicked: {}", p))?;
	if got != want {
		return Err(format!("[{}; {}]: bulk encoding differs from the element-wise twin", name, N));
	}
	let mut inputs: Vec<Vec<u8>> = vec![want.clone()];
	let mut t = want.clone();
	t.push(0x7f);
	inputs.push(t);
	if !want.is_empty() {
		inputs.push(want[..want.len() - 1].to_vec());
		inputs.push(want[..want.len() / 2].to_vec());
		inputs.push(vec![]);
	}
	for inp in &inputs {
		let mut a = &inp[..];
		let mut b = &inp[..];
		let ra = guarded(|| <[T; N]>::decode(&mut a)).map_err(|p| format!("bulk array decode panicked: {}", p))?;
		let rb = guarded(|| <[Twin<T>; N]>::decode(&mut b)).map_err(|p| format!("element-wise array decode panicked: {}", p))?;
		match (ra, rb) {
			(Ok(x), Ok(y)) =>
				if !same_vec(&x, &y) || a.len() != b.len() {
					return Err(format!("[{}; {}]: bulk and element-wise decode disagree on {} bytes", name, N, inp.len()));
				},
			(Err(_), Err(_)) => {},
			_ => return Err(format!("[{}; {}]: bulk and element-wise decode disagree on accept/reject of {} bytes", name, N, inp.len())),
		}
		// skip must agree with decode as well (array skip uses encoded_fixed_size)
		let mut c = &inp[..];
		let rs = guarded(|| <[T; N]>::skip(&mut c)).map_err(|p| format!("array skip panicked: {}", p))?;
		let mut d = &inp[..];
		let rd = <[Twin<T>; N]>::decode(&mut d);
		if rs.is_ok() != rd.is_ok() || (rs.is_ok() && c.len() != d.len()) {
			return Err(format!("[{}; {}]: skip disagrees with element-wise decode on {} bytes", name, N, inp.len()));
		}
	}
	Ok(())
}

fn bulk_type<T: SweepElem>(name: &'static str, tier: Tier) -> Acc {
	let mut lens = sweep_lens(std::mem::size_of::<T>(), Tier::Quick);
	lens.extend_from_slice(&[3, 4, 5, 6, 7, 8, 63, 64, 65]);
	if tier.thorough() {
		let chunk = 16384 / std::mem::size_of::<T>();
		lens.extend((0..=64).map(|i| i * chunk / 16));
		lens.extend((1..=3).flat_map(|m| (m * chunk - 3..=m * chunk + 3)));
	}
	lens.sort();
	lens.dedup();
	let max = *lens.iter().max().unwrap();
	let master: Vec<T> = (0..max).map(T::nth).collect();
	let mut items: Vec<(usize, usize)> = vec![];
	for &n in &lens {
		if n <= 8 {
			for s in 0..=n {
				items.push((n, s));
			}
		} else {
			for s in [0, 1, n / 2, n - 1] {
				items.push((n, s));
			}
		}
	}
	let mut acc = par(&items, |(n, split), acc| {
		acc.evaluations += 1;
		acc.transitions += 12;
		match bulk_one::<T>(name, &master[..*n], *split) {
			Ok(()) => {
				acc.states += 1;
				acc.traces += 1;
				if *n > 0 {
					acc.nontrivial += 1;
				}
				acc.outcome("bulk==elementwise");
			},
			Err(detail) => acc.violate(Violation {
				property: "C07".into(),
				sub: "C07.bulk".into(),
				key: format!("C07|{}|bulk-vs-elementwise", name),
				detail,
				case: json!({"sub": "C07.bulk", "elem": name, "len": n, "split": split}),
			}),
		}
	});
	let mut arr = |r: Result<(), String>, n: usize| {
		acc.evaluations += 1;
		acc.transitions += 8;
		match r {
			Ok(()) => {
				acc.states += 1;
				acc.traces += 1;
				acc.nontrivial += 1;
				acc.outcome("array-bulk==elementwise");
			},
			Err(detail) => acc.violate(Violation {
				property: "C07".into(),
				sub: "C07.array".into(),
				key: format!("C07|{}|array-bulk-vs-elementwise", name),
				detail,
				case: json!({"sub": "C07.array", "elem": name, "n": n}),
			}),
		}
	};
	arr(array_one::<T, 0>(name), 0);
	arr(array_one::<T, 1>(name), 1);
	arr(array_one::<T, 2>(name), 2);
	arr(array_one::<T, 3>(name), 3);
	arr(array_one::<T, 32>(name), 32);
	arr(array_one::<T, 1025>(name), 1025);
	arr(array_one::<T, 16385>(name), 16385);
	acc
}

macro_rules! for_prims {
	($m:ident, $($args:expr),*) => {{
		$m!(u8, "u8", $($args),*); $m!(i8, "i8", $($args),*); $m!(u16, "u16", $($args),*); $m!(i16, "i16", $($args),*);
		$m!(u32, "u32", $($args),*); $m!(i32, "i32", $($args),*); $m!(u64, "u64", $($args),*); $m!(i64, "i64", $($args),*);
		$m!(u128, "u128", $($args),*); $m!(i128, "i128", $($args),*); $m!(f32, "f32", $($args),*); $m!(f64, "f64", $($args),*);
	}};
}

pub fn run(tier: Tier, reg: &[VT]) -> Report {
	let mut rep = Report::new("C07", tier);
	let b = if tier.thorough() { domain::Bound::thorough() } else { domain::Bound::quick() };
	let acc = par(reg, |vt, acc| {
		heartbeat(vt.name);
		let shape = (vt.shape)();
		for v in domain::values(&shape, &b) {
			acc.evaluations += 1;
			acc.transitions += 9;
			match entry_points(vt, &shape, &v) {
				Ok(n) => {
					acc.states += 1;
					acc.traces += 1;
					if n > 0 {
						acc.nontrivial += 1;
					}
					acc.outcome("entry-points-agree");
					if acc.evaluations % 30011 == 1 {
						acc.sample(json!({"type": vt.name, "value": value_short(&v), "len": n}));
					}
				},
				Err(detail) => acc.violate(Violation {
					property: "C07".into(),
					sub: "C07.entry".into(),
					key: format!("C07|{}|entry-points", vt.name),
					detail,
					case: json!({"sub": "C07.entry", "type": vt.name, "value": value_to_json(&v)}),
				}),
			}
		}
	});
	rep.part("entry points", "every registry type x boundary value: encode, encode_to(Vec / dyn Output / io::Write), using_encoded, encoded_size describe the same bytes; encoding twice is stable", acc);

	let bound = if tier.thorough() { 2 } else { 1 };
	let types: Vec<&VT> = reg.iter().filter(|v| tier.thorough() || v.core || v.class == "leaf" || v.class == "tuple").collect();
	let acc = par(&types, |vt, acc| {
		let shape = (vt.shape)();
		let vals = if tier.thorough() { domain::values(&shape, &domain::Bound::small()) } else { domain::reduced(&shape) };
		for v in vals.iter().take(if tier.thorough() { 40 } else { 4 }) {
			acc.evaluations += 1;
			match short_writes(vt, &shape, v, bound) {
				Ok(runs) => {
					acc.states += runs;
					acc.traces += runs;
					acc.transitions += runs;
					if runs > 1 {
						acc.nontrivial += 1;
					}
					acc.outcome(if runs > 1 { "schedules-agree" } else { "no-choice-points" });
				},
				Err(detail) => acc.violate(Violation {
					property: "C07".into(),
					sub: "C07.write".into(),
					key: format!("C07|{}|short-writes", vt.name),
					detail,
					case: json!({"sub": "C07.write", "type": vt.name, "value": value_to_json(v), "bound": bound}),
				}),
			}
		}
	});
	rep.part("short-write schedules", &format!("io::Write sink whose every write call is a choice point (all / 1 byte / half / Interrupted): every schedule with <= {} deviations", bound), acc);

	macro_rules! bulk {
		($t:ty, $name:expr, $rep:expr, $tier:expr) => {{
			let acc = bulk_type::<$t>($name, $tier);
			$rep.part(&format!("bulk vs element-wise {}", $name), "slice / Vec / wrapped VecDeque / [T; N] of a primitive vs the Twin<T> instantiation (TYPE_INFO = Unknown): encode bytes, decode value / outcome / consumption, array skip", acc);
		}};
	}
	for_prims!(bulk, rep, tier);

	rep.rule = "case = (type, value) for entry points, (type, value, write schedule) for the io::Write sink (deviation-bounded: 0, 1, 2 deviations), (element type, length, deque split point) and (element type, N) for bulk vs element-wise; non-trivial = non-empty encoding".into();
	rep.bounds = json!({"types": reg.len(), "write_deviation_bound": bound, "array_sizes": [0, 1, 2, 3, 32, 1025, 16385]});
	rep
}

pub fn replay(reg: &[VT], case: &Json) -> Option<String> {
	match case["sub"].as_str().unwrap() {
		"C07.entry" => {
			let vt = find_vt(reg, case["type"].as_str().unwrap());
			entry_points(vt, &(vt.shape)(), &value_from_json(&case["value"])).err()
		},
		"C07.write" => {
			let vt = find_vt(reg, case["type"].as_str().unwrap());
			short_writes(vt, &(vt.shape)(), &value_from_json(&case["value"]), case["bound"].as_u64().unwrap() as usize).err()
		},
		"C07.bulk" => {
			let name = case["elem"].as_str().unwrap().to_string();
			let n = case["len"].as_u64().unwrap() as usize;
			let split = case["split"].as_u64().unwrap() as usize;
			let mut out = None;
			macro_rules! one {
				($t:ty, $name:expr, $want:expr) => {
					if $want == $name {
						let master: Vec<$t> = (0..n).map(<$t as SweepElem>::nth).collect();
						out = bulk_one::<$t>($name, &master, split).err();
					}
				};
			}
			for_prims!(one, name);
			out
		},
		"C07.array" => {
			let name = case["elem"].as_str().unwrap().to_string();
			let n = case["n"].as_u64().unwrap();
			let mut out = None;
			macro_rules! one {
				($t:ty, $name:expr, $want:expr) => {
					if $want == $name {
						out = match n {
							0 => array_one::<$t, 0>($name),
							1 => array_one::<$t, 1>($name),
							2 => array_one::<$t, 2>($name),
							3 => array_one::<$t, 3>($name),
							32 => array_one::<$t, 32>($name),
							1025 => array_one::<$t, 1025>($name),
							_ => array_one::<$t, 16385>($name),
						}
						.err();
					}
				};
			}
			for_prims!(one, name);
			out
		},
		_ => None,
	}
}

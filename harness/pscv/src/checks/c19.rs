//! C19 — the counting input reports exactly the bytes delivered.

use crate::{checks::c03, common::*, space};
use parity_scale_codec::{CountedInput, Decode, Input};
use refmodel::{side::counter_add, Shape};
use serde_json::{json, Value as Json};
use stateright::{Model, Property};
use subjects::{
	drivers::{run_program, script_observed, script_set, Cmd, Script},
	inputs::Endless,
	vt::VT,
};

pub fn count_node(vt: &VT, shape: &Shape, x: &[u8]) -> Result<(&'static str, bool), String> {
	let (r, count, delivered) = guarded(|| (vt.decode_counted)(x)).map_err(|p| format!("decode through CountedInput panicked: {}", p))?;
	if count != delivered as u64 {
		return Err(format!(
			"count() = {} but the wrapped slice delivered {} bytes (decode {})",
			count,
			delivered,
			if r.is_ok() { "succeeded" } else { "failed" }
		));
	}
	let plain = guarded(|| (vt.decode)(x)).map_err(|p| format!("decode panicked: {}", p))?;
	let class = match (&r, &plain) {
		(Ok(v), Ok(p)) => {
			if shape.normalize(v) != shape.normalize(&p.value) {
				return Err("value decoded through CountedInput differs".into());
			}
			if count != p.consumed as u64 {
				return Err(format!("count() = {} after success but the encoded length is {}", count, p.consumed));
			}
			"ok"
		},
		(Err(_), Err(_)) => "err",
		_ => return Err("accept/reject differs through CountedInput".into()),
	};
	Ok((class, c03::open_node(vt, shape, x)))
}

// ---- the counter as a state machine -----------------------------------------------------------

#[derive(Clone, Copy, Debug, PartialEq, Eq, Hash)]
pub enum Op {
	ReadByte,
	Read(u8),
	/// a read asking for more than is left (fails)
	ReadTooMuch,
}

#[derive(Clone, Debug, PartialEq, Eq, Hash)]
pub struct CSt {
	pub start: u64,
	pub ops: Vec<Op>,
	pub model_count: u64,
	pub observed: u64,
	pub pos: usize,
	pub mismatch: bool,
}

pub const DATA: [u8; 6] = [1, 2, 3, 4, 5, 6];

/// Replays `ops` on a fresh real `CountedInput` preset to `start`; returns (count(), position of
/// the wrapped slice, model count).
pub fn run_ops(start: u64, ops: &[Op], via_script: bool) -> (u64, usize, u64) {
	let mut s = &DATA[..];
	let mut model = start;
	let mut pos = 0usize;
	// the reference model
	for op in ops {
		let want = match op {
			Op::ReadByte => 1usize,
			Op::Read(n) => *n as usize,
			Op::ReadTooMuch => DATA.len() + 1,
		};
		if want <= DATA.len() - pos {
			pos += want;
			model = counter_add(model, want as u64);
		} else if via_script {
			break; // a decoder stops at the first failing read
		}
	}
	let mut c = CountedInput::verif_new_with_count(&mut s, start);
	if via_script {
		let prog: Vec<Cmd> = ops
			.iter()
			.map(|o| match o {
				Op::ReadByte => Cmd::ReadByte,
				Op::Read(n) => Cmd::Read(*n as usize),
				Op::ReadTooMuch => Cmd::Read(DATA.len() + 1),
			})
			.collect();
		script_set(&prog);
		let _ = Script::decode(&mut c);
		let _ = script_observed();
	} else {
		for op in ops {
			match op {
				Op::ReadByte => {
					let _ = c.read_byte();
				},
				Op::Read(n) => {
					let mut buf = vec![0u8; *n as usize];
					let _ = c.read(&mut buf);
				},
				Op::ReadTooMuch => {
					let mut buf = vec![0u8; DATA.len() + 1];
					let _ = c.read(&mut buf);
				},
			}
		}
	}
	let count = c.count();
	(count, DATA.len() - s.len(), model)
}

pub struct CounterModel {
	pub starts: Vec<u64>,
	pub max_depth: usize,
	pub via_script: bool,
}

impl Model for CounterModel {
	type State = CSt;
	type Action = Op;
	fn init_states(&self) -> Vec<CSt> {
		self.starts.iter().map(|s| CSt { start: *s, ops: vec![], model_count: *s, observed: *s, pos: 0, mismatch: false }).collect()
	}
	fn actions(&self, s: &CSt, out: &mut Vec<Op>) {
		if s.ops.len() >= self.max_depth || s.mismatch {
			return;
		}
		out.extend_from_slice(&[Op::ReadByte, Op::Read(0), Op::Read(1), Op::Read(2), Op::Read(3), Op::ReadTooMuch]);
	}
	fn next_state(&self, s: &CSt, a: Op) -> Option<CSt> {
		let mut ops = s.ops.clone();
		ops.push(a);
		// live objects do not copy: rebuild a fresh real object by replaying the history
		let (observed, pos, model) = run_ops(s.start, &ops, self.via_script);
		let mismatch = observed != model || (!self.via_script && pos != model_pos(&ops));
		Some(CSt { start: s.start, ops, model_count: model, observed, pos, mismatch })
	}
	fn properties(&self) -> Vec<Property<Self>> {
		vec![Property::always("count == saturating sum of delivered bytes", |_, s: &CSt| !s.mismatch)]
	}
}

fn model_pos(ops: &[Op]) -> usize {
	let mut pos = 0usize;
	for op in ops {
		let want = match op {
			Op::ReadByte => 1usize,
			Op::Read(n) => *n as usize,
			Op::ReadTooMuch => DATA.len() + 1,
		};
		if want <= DATA.len() - pos {
			pos += want;
		}
	}
	pos
}

pub fn run(tier: Tier, reg: &[VT]) -> Report {
	let mut rep = Report::new("C19", tier);
	let types: Vec<&VT> = reg.iter().collect();
	let depth = if tier.thorough() { 3 } else { 2 };
	let acc = c03::explore_all("C19", "C19.count", count_node, &types, &c03::ALL, depth, u64::MAX, false);
	rep.part("decode through CountedInput (all bytes)", &format!("every byte string of length <= {} x every registry type: count() == bytes delivered by the wrapped slice, after success and after failure", depth), acc);
	let (d, cap) = if tier.thorough() { (6, 1_000_000u64) } else { (4, 30_000u64) };
	let acc = c03::explore_all("C19", "C19.count", count_node, &types, &c03::B, d, cap, true);
	if acc.extra.get("types_capped").copied().unwrap_or(0) > 0 {
		rep.caps.push(format!("deep exploration: run cap {} per type hit for {} types", cap, acc.extra["types_capped"]));
	}
	rep.part("decode through CountedInput (reduced alphabet)", &format!("lazy DFS over the 20-byte alphabet to depth {}, cap {} per type", d, cap), acc);

	// the counter as a state machine, including the saturation clause (hook presets the counter)
	let starts: Vec<u64> = vec![0, u64::MAX - 3, u64::MAX - 2, u64::MAX - 1, u64::MAX];
	let md = if tier.thorough() { 7 } else { 5 };
	for via_script in [false, true] {
		let st = starts.clone();
		let r = space::explore(move || CounterModel { starts: st.clone(), max_depth: md, via_script });
		let mut acc = Acc::default();
		acc.states = r.unique_states;
		acc.transitions = r.generated_states;
		acc.traces = r.generated_states;
		acc.evaluations = r.generated_states;
		acc.nontrivial = r.unique_states.saturating_sub(starts.len() as u64);
		acc.outcome(if r.counterexamples.is_empty() { "invariant-holds" } else { "counterexample" });
		if !r.deterministic {
			acc.notes.insert("counter model: two runs disagreed on the number of states".into());
		}
		for (_, path) in &r.counterexamples {
			acc.violate(Violation {
				property: "C19".into(),
				sub: "C19.ops".into(),
				key: "C19|CountedInput|operation-sequence".into(),
				detail: format!("after {:?} count() differs from the saturating sum of delivered bytes", path),
				case: json!({"sub": "C19.ops", "via_script": via_script, "starts": starts,
					"ops": path.iter().map(|o| match o { Op::ReadByte => json!("read_byte"), Op::Read(n) => json!({"read": n}), Op::ReadTooMuch => json!("read_too_much") }).collect::<Vec<_>>()}),
			});
		}
		acc.sample(json!({"start": "u64::MAX-2", "ops": ["read(3)", "read_byte", "read_too_much"], "expected_count": "u64::MAX (saturated)", "via_script": via_script}));
		rep.part(
			if via_script { "counter machine (through a Decode impl)" } else { "counter machine (direct calls)" },
			&format!("stateright BFS: starts {{0, MAX-3..MAX}} x all sequences of <= {} operations {{read_byte, read(0..3), failing read}} on a real CountedInput rebuilt per state", md),
			acc,
		);
	}

	// the preset state is a real one: reach 2^31-1 .. by no-op reads without the hook
	let mut acc = Acc::default();
	{
		let mut e = Endless;
		let mut c = CountedInput::new(&mut e);
		let mut big = Vec::<u8>::new();
		// a zero-length Vec cannot express 8 GiB; use repeated 1 GiB reads of an untouched buffer
		big.resize(1 << 30, 0);
		for _ in 0..8 {
			let _ = c.read(&mut big);
		}
		let got = c.count();
		acc.evaluations += 1;
		acc.transitions += 8;
		if got == 8 << 30 {
			acc.states += 1;
			acc.traces += 1;
			acc.nontrivial += 1;
			acc.outcome("large-count-without-hook");
		} else {
			acc.violate(Violation {
				property: "C19".into(),
				sub: "C19.big".into(),
				key: "C19|CountedInput|large-count".into(),
				detail: format!("after eight successful 1 GiB reads count() = {}", got),
				case: json!({"sub": "C19.big"}),
			});
		}
	}
	rep.part("large count without the hook", "eight 1 GiB reads from a never-failing input: count() = 2^33", acc);

	rep.rule = "case = (type, byte string) decoded through CountedInput over a slice, and explicit-state BFS over operation sequences on a real CountedInput whose counter is preset by the cfg-guarded hook; \
		non-trivial = non-empty input / states with a non-empty history"
		.into();
	rep.bounds = json!({"types": reg.len(), "byte_depth_full": depth, "byte_depth_reduced": d, "op_depth": md, "starts": ["0", "MAX-3", "MAX-2", "MAX-1", "MAX"]});
	rep.assumptions = vec!["the hook CountedInput::verif_new_with_count only presets the private counter (additive, cfg-guarded)".into()];
	rep
}

pub fn replay(reg: &[VT], case: &Json) -> Option<String> {
	match case["sub"].as_str().unwrap() {
		"C19.count" => {
			let vt = find_vt(reg, case["type"].as_str().unwrap());
			count_node(vt, &(vt.shape)(), &unhex(case["bytes"].as_str().unwrap())).err()
		},
		"C19.ops" => {
			let ops: Vec<Op> = case["ops"]
				.as_array()
				.unwrap()
				.iter()
				.map(|o| {
					if o == "read_byte" {
						Op::ReadByte
					} else if o == "read_too_much" {
						Op::ReadTooMuch
					} else {
						Op::Read(o["read"].as_u64().unwrap() as u8)
					}
				})
				.collect();
			let via = case["via_script"].as_bool().unwrap();
			for s in case["starts"].as_array().unwrap() {
				let start = s.as_u64().unwrap();
				let (obs, pos, model) = run_ops(start, &ops, via);
				if obs != model || (!via && pos != model_pos(&ops)) {
					return Some(format!("start {}: count() = {} model {}", start, obs, model));
				}
			}
			None
		},
		_ => None,
	}
}

#[allow(dead_code)]
fn _unused(_: &dyn Fn(&mut dyn Input, &[Cmd])) {
	let _ = run_program::<Endless>;
}

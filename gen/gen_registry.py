#!/usr/bin/env python3
"""Generates harness/subjects/src/registry_gen.rs: the list of concrete subject types with the
optional-trait flags each one has. Deterministic; no third-party modules."""
import sys, itertools

class Ty:
    def __init__(s, expr, mem=True, mel=False, cel=False, ln=False, ord_=True, clone=True, zw=False, cls="leaf", core=False, depth=0):
        s.expr=expr; s.mem=mem; s.mel=mel; s.cel=cel; s.ln=ln; s.ord=ord_; s.clone=clone; s.zw=zw; s.cls=cls; s.core=core; s.depth=depth
    def w(s, **kw):
        t=Ty(s.expr, s.mem, s.mel, s.cel, s.ln, s.ord, s.clone, s.zw, s.cls, s.core, s.depth)
        for k,v in kw.items(): setattr(t,k,v)
        return t

def prim(e, **kw): return Ty(e, mem=True, mel=True, cel=True, **kw)

UINTS=["u8","u16","u32","u64","u128"]; SINTS=["i8","i16","i32","i64","i128"]
leaves=[]
for t in UINTS+SINTS: leaves.append(prim(t, core=True))
leaves += [Ty("f32", ord_=False, core=True), Ty("f64", ord_=False, core=True), prim("bool", core=True),
           prim("()", zw=True, core=True)]
for t in UINTS: leaves.append(Ty(f"Compact<{t}>", mel=True, core=True))
leaves.append(Ty("Compact<()>", mel=True, zw=True))
for t in ["NonZeroU8","NonZeroU16","NonZeroU32","NonZeroU64","NonZeroU128","NonZeroI8","NonZeroI16","NonZeroI32","NonZeroI64","NonZeroI128"]:
    leaves.append(prim(t, core=t in ("NonZeroU16","NonZeroI32")))
leaves += [Ty("OptionBool", ord_=False, core=True), Ty("String", core=True), prim("Duration", core=True),
           prim("PhantomData<u8>", zw=True), Ty("Bytes", core=True)]
bits=[]
for st in ["u8","u16","u32","u64"]:
    for o in ["Lsb0","Msb0"]:
        bits.append(Ty(f"BitVec<{st}, {o}>", ord_=False, cls="bits", core=(st,o) in (("u8","Lsb0"),("u16","Msb0"))))
bits.append(Ty("BitBox<u8, Msb0>", ord_=False, cls="bits"))
bits.append(Ty("BitBox<u32, Lsb0>", ord_=False, cls="bits"))
leaves += bits
L={t.expr:t for t in leaves}

def option(t): return Ty(f"Option<{t.expr}>", mem=t.mem, mel=t.mel, ord_=t.ord, clone=t.clone, depth=t.depth+1)
def result(t,e): return Ty(f"Result<{t.expr}, {e.expr}>", mem=t.mem and e.mem, mel=t.mel and e.mel, ord_=t.ord and e.ord, clone=t.clone and e.clone, depth=max(t.depth,e.depth)+1)
def vec(t): return Ty(f"Vec<{t.expr}>", mem=t.mem, ln=True, ord_=t.ord, clone=t.clone, depth=t.depth+1)
def deque(t): return Ty(f"VecDeque<{t.expr}>", mem=t.mem, ln=True, ord_=t.ord, clone=t.clone, depth=t.depth+1)
def llist(t): return Ty(f"LinkedList<{t.expr}>", mem=t.mem, ln=True, ord_=t.ord, clone=t.clone, depth=t.depth+1)
def heap(t): return Ty(f"BinaryHeap<{t.expr}>", mem=t.mem, ln=True, ord_=False, clone=t.clone, depth=t.depth+1)
def bset(t): return Ty(f"BTreeSet<{t.expr}>", mem=t.mem, ln=True, ord_=True, clone=t.clone, depth=t.depth+1)
def bmap(k,v): return Ty(f"BTreeMap<{k.expr}, {v.expr}>", mem=k.mem and v.mem, ln=True, ord_=v.ord, clone=k.clone and v.clone, depth=max(k.depth,v.depth)+1)
def arr(t,n): return Ty(f"[{t.expr}; {n}]", mem=t.mem, mel=t.mel, cel=t.cel, ord_=t.ord, clone=t.clone, zw=(n==0 or t.zw), depth=t.depth+1)
def tup(ts):
    e="("+", ".join(t.expr for t in ts)+(",)" if len(ts)==1 else ")")
    return Ty(e, mem=all(t.mem for t in ts), mel=all(t.mel for t in ts), cel=all(t.cel for t in ts), ln=ts[0].ln,
              ord_=all(t.ord for t in ts) and len(ts)<=12, clone=all(t.clone for t in ts), zw=all(t.zw for t in ts), depth=max(t.depth for t in ts)+1)
def box(t): return Ty(f"Box<{t.expr}>", mem=t.mem, mel=t.mel, cel=t.cel, ord_=t.ord, clone=t.clone, zw=t.zw, depth=t.depth+1)
def rc(t): return Ty(f"Rc<{t.expr}>", mem=t.mem, ord_=t.ord, clone=True, zw=t.zw, depth=t.depth+1)
def arc(t): return Ty(f"Arc<{t.expr}>", mem=t.mem, mel=t.mel, ord_=t.ord, clone=True, zw=t.zw, depth=t.depth+1)
def cow(t): return Ty(f"Cow<'static, {t.expr}>", mem=t.mem, ord_=t.ord, clone=True, zw=t.zw, depth=t.depth+1)
def rng(t): return Ty(f"Range<{t.expr}>", mem=t.mem, mel=t.mel, cel=t.cel, ord_=False, clone=t.clone, zw=t.zw, depth=t.depth+1)
def rngi(t): return Ty(f"RangeInclusive<{t.expr}>", mem=t.mem, mel=t.mel, cel=t.cel, ord_=False, clone=t.clone, zw=t.zw, depth=t.depth+1)
def garr(t,n): return Ty(f"GenericArray<{t.expr}, typenum::U{n}>", mem=False, ord_=t.ord, clone=t.clone, depth=t.depth+1)
def twin(t): return Ty(f"Twin<{t.expr}>", mem=t.mem, ord_=t.ord, clone=t.clone, zw=t.zw, depth=t.depth)

out=[]; seen=set()
def add(t, cls=None, core=None):
    if t.expr in seen: return
    seen.add(t.expr)
    if cls: t.cls=cls
    if core is not None: t.core=core
    out.append(t)

for t in leaves: add(t)

# unary constructors over a representative element set
R1=[L[x] for x in ["u8","u16","u32","u64","u128","i8","i16","i32","i64","i128","f32","f64","bool","()","Compact<u32>","Compact<u64>","Compact<u128>","String","OptionBool","NonZeroU16","Duration","Bytes","BitVec<u8, Lsb0>"]]
R1 += [option(L["u8"]), tup([L["u8"],L["u16"]]), twin(L["u32"])]
CORE_EL={"u8","u32","bool","String","()","Compact<u32>"}
for t in R1:
    c = t.expr in CORE_EL
    add(option(t),"unary",c); add(vec(t),"unary",c); add(deque(t),"unary",c and t.expr in ("u8","u32","String")); add(llist(t),"unary",t.expr in ("u8","()"))
    add(box(t),"unary",c and t.expr in ("u32","String","()")); add(rc(t),"unary",t.expr=="u32"); add(arc(t),"unary",t.expr=="u32")
    add(result(t,L["u8"]),"unary",t.expr in ("u32","String"))
    if c: add(result(L["bool"],t),"unary",False)
    add(tup([t]),"unary",t.expr=="u32")
    if c: add(tup([t,L["u8"]]),"unary",False)
    for n in ((0,1,2,3) if c else (2,)): add(arr(t,n),"unary", n==2 and t.expr in ("u8","u32","bool"))
    add(bmap(L["u8"],t),"unary",t.expr in ("u8","String"))
    if t.ord:
        add(bset(t),"unary",t.expr in ("u8","u32","String")); add(heap(t),"unary",t.expr in ("u8","u32"))
        if c: add(bmap(t,L["u8"]),"unary",False)
    if t.clone: add(cow(t),"unary",t.expr=="u32")
    add(rng(t),"unary",t.expr=="u32"); add(rngi(t),"unary",t.expr=="u64")
add(Ty("Cow<'static, str>", mem=False), "unary", True)
add(Ty("Cow<'static, [u8]>", mem=False), "unary", False)
add(Ty("Cow<'static, [u32]>", mem=False), "unary", False)
add(Ty("Cow<'static, [String]>", mem=False), "unary", False)
for t in [L["u8"],L["u16"],L["u32"],L["u64"],L["bool"],L["String"]]:
    for n in (0,1,3,7): add(garr(t,n),"garray", t.expr=="u16" and n==3)
for x in ["u16","u64","i128","f32","bool","String"]:
    add(arr(L[x],32),"unary",False)
for x in UINTS+SINTS+["f32","f64"]:
    add(twin(L[x]),"twin",False); add(vec(twin(L[x])),"twin", x=="u32")

# depth-2 terms over a reduced leaf set
R2=[L[x] for x in ["u8","bool","String"]]
C1=[option, vec, box, deque, llist, lambda t: result(t,L["u8"]), lambda t: tup([t,L["u8"]]), lambda t: arr(t,2), lambda t: bmap(L["u8"],t), rc, cow]
C1o=[bset, heap]
C2=C1[:9]
for leaf in R2:
    for f in C1+C1o:
        if f in C1o and not leaf.ord: continue
        inner=f(leaf)
        for g in C2+C1o:
            if g in C1o and not inner.ord: continue
            if g is cow and not inner.clone: continue
            t=g(inner)
            add(t,"depth2", leaf.expr in ("u8","String") and f in (option,vec,box) and g in (option,vec,box))

# tuples of arity 1..18: one lane-coded field per position so order is visible
cyc=[L[x] for x in ["u8","u16","u32","u64","u128","i8","i16","i32","i64","i128","bool","Compact<u32>","String","Compact<u64>","f32","u8","u16","u32"]]
for n in range(1,19):
    add(tup(cyc[:n]),"tuple", n in (2,18))
add(tup([vec(L["u8"]),L["u32"]]),"tuple",True)
add(tup([bmap(L["u8"],L["u8"]),L["bool"]]),"tuple",False)
add(tup([llist(L["u16"]),L["String"],L["u8"]]),"tuple",False)

# elements that are large in memory (a small claimed count is already a lot of bytes)
big_el=[arr(L["u8"],4096), arr(L["u32"],1000), tup([L["u64"],arr(L["u32"],100),option(L["u8"])])]
for t in big_el:
    add(vec(t),"bigelem",False); add(deque(t),"bigelem",False); add(option(vec(t)),"bigelem",False); add(bmap(L["u8"],t),"bigelem",False)

# deep chains
def chain(fs, leaf):
    t=leaf
    for f in reversed(fs): t=f(t)
    return t
add(chain([vec,vec,vec,vec,vec],L["u8"]),"deep",True)
add(chain([box,box,box,box,box],L["u32"]),"deep",False)
add(chain([option,box,vec,option,box],L["bool"]),"deep",True)
add(chain([vec,option,deque,lambda t: bmap(L["u8"],t),box],L["String"]),"deep",False)
add(chain([bset,bset,bset],L["u8"]),"deep",False)
add(chain([llist,llist,llist],L["u8"]),"deep",False)
add(chain([rc,arc,box,cow],L["u16"]),"deep",False)
add(chain([option,option,option,option],L["bool"]),"deep",False)

def line(t):
    # optional traits (MaxEncodedLen, ConstEncodedLen, DecodeLength, DecodeWithMemTracking) are probed at
    # compile time by the vt! macro; the flags computed above are only kept for documentation
    return f'subjects::vt!({t.expr}, "{t.expr}", "{t.cls}", {str(t.core).lower()})'

NCRATES=6
HEADER = """// @generated by /verif/gen/gen_registry.py -- do not edit
#![allow(clippy::all, unused_imports)]
use subjects::{derived::*, drivers::Twin, vt::VT};
use bitvec::prelude::{BitBox, BitVec, Lsb0, Msb0};
use bytes::Bytes;
use generic_array::{typenum, GenericArray};
use parity_scale_codec::{Compact, OptionBool};
use std::{
	borrow::Cow,
	collections::{BTreeMap, BTreeSet, BinaryHeap, LinkedList, VecDeque},
	marker::PhantomData,
	num::*,
	ops::{Range, RangeInclusive},
	rc::Rc,
	sync::Arc,
	time::Duration,
};

"""
CARGO = """[package]
name = "reg%d"
version.workspace = true
edition.workspace = true

[dependencies]
refmodel = { path = "../refmodel" }
subjects = { path = "../subjects" }
parity-scale-codec = { path = "/repo", features = ["derive", "bit-vec", "bytes", "generic-array", "max-encoded-len", "std"] }
bitvec = { version = "1", default-features = false, features = ["alloc", "std"] }
bytes = { version = "1", default-features = false }
generic-array = "0.14.7"
"""
if __name__=="__main__":
    import os
    root=sys.argv[1]
    # round-robin so that every crate gets a similar mix
    parts=[out[i::NCRATES] for i in range(NCRATES)]
    for k,part in enumerate(parts):
        d=os.path.join(root,"reg%d"%k,"src"); os.makedirs(d,exist_ok=True)
        open(os.path.join(root,"reg%d"%k,"Cargo.toml"),"w").write(CARGO%k)
        chunks=[part[i:i+40] for i in range(0,len(part),40)]
        with open(os.path.join(d,"lib.rs"),"w") as f:
            f.write(HEADER)
            for i,c in enumerate(chunks):
                f.write(f"#[inline(never)]\nfn chunk{i}(v: &mut Vec<(usize, VT)>) {{\n")
                for t in c: f.write(f"\tv.push(({out.index(t)}, {line(t)}));\n")
                f.write("}\n\n")
            f.write("pub fn types() -> Vec<(usize, VT)> {\n\tlet mut v = Vec::new();\n")
            for i in range(len(chunks)): f.write(f"\tchunk{i}(&mut v);\n")
            f.write("\tv\n}\n")
    print(len(out), "types;", sum(1 for t in out if t.core), "core;", NCRATES, "crates")

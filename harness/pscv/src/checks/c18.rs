//! C18 — length peeking and skipping agree with full decoding.

use crate::{checks::c03, common::*};
use refmodel::{domain, ref_enc, Shape, Value};
use serde_json::{json, Value as Json};
use subjects::vt::VT;

fn logical_len(shape: &Shape, v: &Value) -> Option<u64> {
	match (shape, v) {
		(Shape::Tuple(es), Value::List(xs)) => logical_len(&es[0], &xs[0]),
		(Shape::Seq(..), _) | (Shape::Map(..), _) => match shape.normalize(v) {
			Value::List(xs) => Some(xs.len() as u64),
			Value::Rep(n) => Some(n),
			Value::Map(xs) => Some(xs.len() as u64),
			_ => None,
		},
		_ => None,
	}
}

pub fn len_check(vt: &VT, shape: &Shape, v: &Value) -> Result<u64, String> {
	let f = vt.len.expect("DecodeLength type");
	if ref_enc(shape, v).is_err() {
		return Ok(0);
	}
	// huge collections of zero-width elements are not materialised: their encoding is the count alone
	let enc = match v {
		Value::Rep(n) if *n > 1 << 20 => ref_enc(shape, v).map_err(|e| format!("{:?}", e))?,
		_ => guarded(|| (vt.encode)(v)).map_err(|p| format!("encode panicked: {}", p))?,
	};
	let want = logical_len(shape, v).ok_or("no logical length")?;
	match guarded(|| f(&enc)) {
		Err(p) => Err(format!("DecodeLength::len panicked: {}", p)),
		Ok(Err(e)) => Err(format!("DecodeLength::len failed on a valid encoding: {}", e)),
		Ok(Ok(n)) =>
			if n as u64 == want {
				Ok(want)
			} else {
				Err(format!("DecodeLength::len = {} but the collection has {} elements", n, want))
			},
	}
}

pub fn skip_node(vt: &VT, shape: &Shape, x: &[u8]) -> Result<(&'static str, bool), String> {
	let d = guarded(|| (vt.decode)(x)).map_err(|p| format!("decode panicked: {}", p))?;
	let s = guarded(|| (vt.skip)(x)).map_err(|p| format!("skip panicked: {}", p))?;
	let class = match (&d, &s) {
		(Ok(dv), Ok(n)) =>
			if dv.consumed == *n {
				"both-ok"
			} else {
				return Err(format!("skip advances {} bytes, decode {}", n, dv.consumed));
			},
		(Err(_), Err(_)) => "both-err",
		(Ok(dv), Err(e)) => return Err(format!("skip fails ({}) where decode succeeds consuming {}", e, dv.consumed)),
		(Err(e), Ok(n)) => return Err(format!("skip succeeds (advancing {}) where decode fails ({})", n, e)),
	};
	// the same through an input of unknown length and through IoReader
	{
		let mut n = subjects::inputs::NoLen::new(x);
		let ok = guarded(|| (vt.skip_dyn)(&mut n)).map_err(|p| format!("skip (unknown-length input) panicked: {}", p))?;
		match (&d, ok) {
			(Ok(dv), true) =>
				if n.pos != dv.consumed {
					return Err(format!("skip over an unknown-length input advances {} bytes, decode {}", n.pos, dv.consumed));
				},
			(Err(_), false) => {},
			(Ok(_), false) => return Err("skip over an unknown-length input fails where decode succeeds".into()),
			(Err(e), true) => return Err(format!("skip over an unknown-length input succeeds where decode fails ({})", e)),
		}
		let mut c = std::io::Cursor::new(x);
		let ok = guarded(|| (vt.skip_io)(&mut c)).map_err(|p| format!("skip (IoReader) panicked: {}", p))?;
		match (&d, ok) {
			(Ok(dv), true) =>
				if c.position() as usize != dv.consumed {
					return Err(format!("skip through IoReader advances {} bytes, decode {}", c.position(), dv.consumed));
				},
			(Err(_), false) => {},
			(Ok(_), false) => return Err("skip through IoReader fails where decode succeeds".into()),
			(Err(e), true) => return Err(format!("skip through IoReader succeeds where decode fails ({})", e)),
		}
	}
	Ok((class, c03::open_node(vt, shape, x)))
}

pub fn run(tier: Tier, reg: &[VT]) -> Report {
	let mut rep = Report::new("C18", tier);
	let b = if tier.thorough() { domain::Bound::thorough() } else { domain::Bound::quick() };
	let lens: Vec<&VT> = reg.iter().filter(|v| v.len.is_some()).collect();
	let acc = par(&lens, |vt, acc| {
		heartbeat(vt.name);
		let shape = (vt.shape)();
		for v in domain::values(&shape, &b) {
			acc.evaluations += 1;
			acc.transitions += 2;
			match len_check(vt, &shape, &v) {
				Ok(n) => {
					acc.states += 1;
					acc.traces += 1;
					if n > 0 {
						acc.nontrivial += 1;
					}
					acc.outcome(&format!("len-class-{}", n.min(5)));
				},
				Err(detail) => acc.violate(Violation {
					property: "C18".into(),
					sub: "C18.len".into(),
					key: format!("C18|{}|decode-length", vt.name),
					detail,
					case: json!({"sub": "C18.len", "type": vt.name, "value": value_to_json(&v)}),
				}),
			}
		}
	});
	// counts that need the 4- and 5-byte prefix: collections of zero-width elements are complete
	// encodings consisting of the count alone, so no 2^30-element collection has to be built
	let mut acc = acc;
	for vt in lens.iter().filter(|v| matches!((v.shape)(), Shape::Seq(k, ref e) if e.zero_width() && !matches!(k, refmodel::SeqKind::Set))) {
		let f = vt.len.unwrap();
		for n in [16383u64, 16384, (1 << 30) - 1, 1 << 30, (1 << 30) + 1, 1 << 31, u32::MAX as u64 - 1, u32::MAX as u64] {
			let mut enc = vec![];
			refmodel::enc_compact(n as u128, &mut enc);
			acc.evaluations += 1;
			acc.transitions += 1;
			match guarded(|| f(&enc)) {
				Ok(Ok(got)) if got as u64 == n => {
					acc.states += 1;
					acc.traces += 1;
					acc.nontrivial += 1;
					acc.outcome("len-class-big");
				},
				other => acc.violate(Violation {
					property: "C18".into(),
					sub: "C18.len".into(),
					key: format!("C18|{}|decode-length", vt.name),
					detail: format!("DecodeLength::len of a collection of {} zero-width elements (encoding {}) returned {:?}", n, hex(&enc), other),
					case: json!({"sub": "C18.len", "type": vt.name, "value": value_to_json(&Value::Rep(n))}),
				}),
			}
		}
	}
	rep.part("DecodeLength", "every DecodeLength registry type (collections and tuples led by them) x boundary values: len(encoded) == number of elements", acc);

	let types: Vec<&VT> = reg.iter().collect();
	let depth = if tier.thorough() { 3 } else { 2 };
	let acc = c03::explore_all("C18", "C18.skip", skip_node, &types, &c03::ALL, depth, u64::MAX, false);
	rep.part("skip (all bytes)", &format!("every byte string of length <= {} x every registry type: skip and decode both succeed leaving the same remainder, or both fail", depth), acc);
	let (d, cap) = if tier.thorough() { (6, 1_000_000u64) } else { (4, 30_000u64) };
	let acc = c03::explore_all("C18", "C18.skip", skip_node, &types, &c03::B, d, cap, true);
	if acc.extra.get("types_capped").copied().unwrap_or(0) > 0 {
		rep.caps.push(format!("skip deep exploration: run cap {} per type hit for {} types", cap, acc.extra["types_capped"]));
	}
	rep.part("skip (reduced alphabet)", &format!("lazy DFS over the 20-byte alphabet to depth {}, cap {} runs per type", d, cap), acc);

	// valid encodings of boundary values followed by a suffix: skip must stop exactly where decode does
	let small = domain::Bound::small();
	let acc = par(reg, |vt, acc| {
		let shape = (vt.shape)();
		for v in domain::values(&shape, &small) {
			let Ok(mut enc) = ref_enc(&shape, &v) else { continue };
			enc.extend_from_slice(&[0xaa, 0x01]);
			acc.evaluations += 1;
			acc.transitions += 2;
			match skip_node(vt, &shape, &enc) {
				Ok((class, _)) => {
					acc.states += 1;
					acc.traces += 1;
					acc.nontrivial += 1;
					acc.outcome(class);
				},
				Err(detail) => acc.violate(Violation {
					property: "C18".into(),
					sub: "C18.skip".into(),
					key: format!("C18|{}|C18.skip", vt.name),
					detail,
					case: json!({"sub": "C18.skip", "type": vt.name, "bytes": hex_full(&enc)}),
				}),
			}
		}
	});
	rep.part("skip (valid encodings)", "every registry type x boundary value, encoding followed by two more bytes", acc);

	rep.rule = "case = (type, value) for length peeking, (type, byte string) for skip vs decode; non-trivial = non-empty collection / input".into();
	rep.bounds = json!({"decode_length_types": lens.len(), "types": reg.len(), "byte_depth_full": depth, "byte_depth_reduced": d});
	rep
}

pub fn replay(reg: &[VT], case: &Json) -> Option<String> {
	let vt = find_vt(reg, case["type"].as_str().unwrap());
	let shape = (vt.shape)();
	match case["sub"].as_str().unwrap() {
		"C18.len" => len_check(vt, &shape, &value_from_json(&case["value"])).err(),
		"C18.skip" => skip_node(vt, &shape, &unhex(case["bytes"].as_str().unwrap())).err(),
		_ => None,
	}
}

fn main(){}

//! C01 — encoded bytes conform to the SCALE wire format.

use crate::{common::*, oracle::*};
use refmodel::{domain, Value};
use serde_json::{json, Value as Json};
use subjects::vt::VT;

pub fn bound(tier: Tier) -> domain::Bound {
	if tier.thorough() {
		domain::Bound::thorough()
	} else {
		domain::Bound::quick()
	}
}

fn one(vt: &VT, shape: &refmodel::Shape, v: &Value, acc: &mut Acc) {
	acc.evaluations += 1;
	acc.transitions += 1;
	match check_encode(vt, shape, v) {
		Ok(Some(bytes)) => {
			acc.traces += 1;
			acc.states += 1;
			if !bytes.is_empty() {
				acc.nontrivial += 1;
			}
			acc.outcome(&format!("len{}", bytes.len().min(20)));
			if acc.evaluations % 5003 == 1 {
				acc.sample(json!({"type": vt.name, "value": value_short(v), "encoded": hex(&bytes)}));
			}
		},
		Ok(None) => acc.outcome("no-encoding"),
		Err(detail) => acc.violate(Violation {
			property: "C01".into(),
			sub: "C01.enc".into(),
			key: format!("C01|{}|encode", vt.name),
			detail,
			case: value_case("C01.enc", vt, v),
		}),
	}
}

pub fn run(tier: Tier, reg: &[VT]) -> Report {
	let mut rep = Report::new("C01", tier);
	let b = bound(tier);
	let acc = par(reg, |vt, acc| {
		heartbeat(vt.name);
		let shape = (vt.shape)();
		for v in domain::values(&shape, &b) {
			one(vt, &shape, &v, acc);
		}
	});
	rep.part("values", "every registry type x every value of its boundary domain, bytes == reference encoding", acc);

	// zero-sized elements make huge element counts representable: cross the 4→5 byte prefix
	let big: Vec<u64> =
		if tier.thorough() { vec![(1 << 30) - 1, 1 << 30, u32::MAX as u64] } else { vec![(1 << 30) - 1, 1 << 30] };
	let vt = find_vt(reg, "Vec<()>");
	let items: Vec<u64> = big;
	let acc = par(&items, |n, acc| {
		let shape = (vt.shape)();
		one(vt, &shape, &Value::Rep(*n), acc);
	});
	rep.part("huge-counts", "Vec<()> with 2^30-1, 2^30 (and 2^32-1 in the thorough tier) elements", acc);

	rep.rule = "odometer enumeration of the boundary domain (DESIGN.md A.1) of every registered type; a case is (type, value); \
		non-trivial = the encoding is non-empty; states = cases whose bytes were compared with the reference encoder"
		.into();
	rep.bounds = json!({"types": reg.len(), "seq_len": b.seq_len, "cap_per_type": b.cap, "full16": b.full16});
	rep.assumptions = vec![
		"the reference encoder (refmodel, validated against the repository's pinned byte vectors) is the SCALE specification".into(),
		"64/128-bit integers and floats are covered at boundary and lane-coded values only".into(),
	];
	rep
}

pub fn replay(reg: &[VT], case: &Json) -> Option<String> {
	let vt = find_vt(reg, case["type"].as_str().unwrap());
	let v = value_from_json(&case["value"]);
	check_encode(vt, &(vt.shape)(), &v).err()
}
